// Demonstration for finding F11 (AxisIter/AxisIterMut::split_at ignored the
// iterator's position). Place in rten-tensor/tests/ and run:
//   cargo test -p rten-tensor --offline --test verif_demo_axis_split
use rten_base::iter::SplitIterator;
use rten_tensor::prelude::*;
use rten_tensor::NdTensor;

#[test]
fn axis_iter_split_after_next() {
    let t = NdTensor::<i32, 2>::from_data([3, 2], (0..6).collect::<Vec<i32>>());
    let mut it = t.axis_iter(0);
    assert_eq!(it.next().unwrap()[[0]], 0);
    let (left, right) = it.split_at(1);
    let left: Vec<i32> = left.map(|row| row[[0]]).collect();
    let right: Vec<i32> = right.map(|row| row[[0]]).collect();
    assert_eq!(left, [2]);
    assert_eq!(right, [4]);
}

#[test]
fn axis_iter_mut_split_after_next() {
    let mut t = NdTensor::<i32, 2>::from_data([3, 2], (0..6).collect::<Vec<i32>>());
    let mut it = t.axis_iter_mut(0);
    let first = it.next().unwrap();
    let (left, right) = it.split_at(1);
    let mut seen = vec![first[[0]]];
    seen.extend(left.map(|row| row[[0]]));
    seen.extend(right.map(|row| row[[0]]));
    // Every row is handed out exactly once.
    assert_eq!(seen, [0, 2, 4]);
}
