// Demonstrations for findings F8 (TopK with K > candidates) and F9
// (multinomial sampling of a zero-probability candidate).
// Place in rten-generate/tests/ and run: cargo test -p rten-generate --offline --test verif_demo
use rten_generate::filter::{Chain, LogitsFilter, TopK};
use rten_generate::sampler::{Multinomial, Sampler};
use rten_generate::Logits;

#[test]
fn top_k_with_fewer_candidates_than_k() {
    let out = TopK::new(5).filter(Logits::dense(vec![0.1, 0.2, 0.3]), &[]);
    assert_eq!(out.len(), 3);
    // Chained: top-p leaves one candidate, top-k asks for two.
    let chain = Chain::new().top_p(0.1).top_k(2);
    let out = chain.filter(Logits::dense(vec![0.7, 0.2, 0.1]), &[]);
    assert_eq!(out.len(), 1);
}

#[test]
fn multinomial_never_samples_zero_probability() {
    // Find a seed whose first draw is exactly 0.0 (probability 2^-24 per seed).
    let mut seed = None;
    for s in 0..200_000_000u64 {
        if fastrand::Rng::with_seed(s).f32() == 0.0 {
            seed = Some(s);
            break;
        }
    }
    let seed = seed.expect("no seed with a zero first draw found");
    eprintln!("seed with first draw 0.0: {seed}");
    // Token 0 has probability exp(-inf) = 0; token 1 has probability 1.
    let logits = Logits::dense(vec![f32::NEG_INFINITY, 0.0]);
    let token = Multinomial::with_seed(seed).sample(&logits);
    assert_eq!(token, 1, "sampled a token whose probability is zero");
}
