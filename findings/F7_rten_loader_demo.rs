// Demonstration for finding F7 (rten_loader constant shapes). Insert into the
// `tests` module of src/model/rten_loader.rs and run
//   cargo test -p rten --offline --lib verif_demo
// Fails (panics) before the fix commit, passes after it.
    fn verif_corrupt_shape(format: crate::model::rten_builder::ModelFormat, new_shape: [u32; 3]) -> Result<Model, LoadError> {
        use rten_tensor::{AsView, Tensor};
        let mut builder = ModelBuilder::new(format);
        let mut gb = builder.graph_builder();
        // Distinctive shape so it can be located in the serialized model.
        let c = Tensor::<i32>::zeros(&[5, 7, 9]);
        gb.add_constant(c.view());
        let graph = gb.finish();
        builder.set_graph(graph);
        let mut data = builder.finish();
        // FlatBuffers vector of the shape: [len=3, 5, 7, 9] as little-endian u32.
        let needle: Vec<u8> = [3u32, 5, 7, 9].iter().flat_map(|x| x.to_le_bytes()).collect();
        let pos = data
            .windows(needle.len())
            .position(|w| w == needle.as_slice())
            .expect("shape not found");
        for (i, dim) in new_shape.iter().enumerate() {
            data[pos + 4 + 4 * i..pos + 8 + 4 * i].copy_from_slice(&dim.to_le_bytes());
        }
        load(
            Arc::new(ConstantStorage::Buffer(data)),
            &ModelOptions::default(),
        )
    }

    #[test]
    fn verif_demo_inline_constant_shape_mismatch_is_error() {
        use crate::model::rten_builder::ModelFormat;
        // Inline data (V1 format): 315 elements of data, shape says 5*7*10.
        let result = verif_corrupt_shape(ModelFormat::V1, [5, 7, 10]);
        assert!(result.is_err(), "malformed model must be rejected with an error");
    }

    #[test]
    fn verif_demo_offset_constant_shape_overflow_is_error() {
        use crate::model::rten_builder::ModelFormat;
        // External tensor data (V2 format): the element count 2^31 * 2^31 * 4
        // wraps to 0 in usize arithmetic.
        let result = verif_corrupt_shape(ModelFormat::V2, [1 << 31, 1 << 31, 4]);
        assert!(result.is_err(), "malformed model must be rejected with an error");
    }

