//! Kani harnesses for `rten_model_file::header` (property C05, header clause).
//! Compiled into the crate through the `#[cfg(kani)] #[path] mod verif_kani;`
//! hook at the end of header.rs.
use super::*;

/// C05(a): for every file of up to 48 bytes, `Header::from_buf` either returns
/// an error or a header whose segments lie inside the file.
#[kani::proof]
#[kani::unwind(6)]
fn c05_q_header_from_buf_bounds() {
    let bytes: [u8; 48] = kani::any();
    let len: usize = kani::any();
    kani::assume(len <= 48);
    let buf = &bytes[..len];
    match Header::from_buf(buf) {
        Ok(h) => {
            kani::cover!(true, "ok header reachable");
            let file_size = len as u64;
            assert!(h.version == 2);
            assert!(h.model_offset >= Header::LEN as u64);
            assert!(h.model_offset <= file_size);
            let end = h.model_offset.checked_add(h.model_len);
            assert!(end.is_some());
            assert!(end.unwrap() <= file_size);
            assert!(h.tensor_data_offset >= Header::LEN as u64);
            assert!(h.tensor_data_offset <= file_size);
            // Anything accepted must at least contain a full header.
            assert!(len >= Header::LEN);
        }
        Err(e) => {
            kani::cover!(e == HeaderError::TooShort, "too-short reachable");
            kani::cover!(e == HeaderError::InvalidLength, "invalid-length reachable");
            // A complete, well-formed header must not be rejected as too short.
            if len >= Header::LEN {
                assert!(e != HeaderError::TooShort);
            }
        }
    }
}

/// C05(a'): a header that `to_buf` writes for in-range fields is read back
/// identically (ties `from_buf` to the serialised field order / endianness).
#[kani::proof]
#[kani::unwind(34)]
fn c05_q_header_roundtrip() {
    let model_offset: u64 = kani::any();
    let model_len: u64 = kani::any();
    let tensor_data_offset: u64 = kani::any();
    let pad: usize = kani::any();
    kani::assume(pad <= 16);
    let file_size = (Header::LEN + pad) as u64;
    kani::assume(model_offset >= 32 && model_offset <= file_size);
    kani::assume(model_len <= file_size - model_offset);
    kani::assume(tensor_data_offset >= 32 && tensor_data_offset <= file_size);
    let h = Header {
        version: 2,
        model_offset,
        model_len,
        tensor_data_offset,
    };
    let mut file = [0u8; 48];
    let ser = h.to_buf();
    assert!(ser.len() == Header::LEN);
    let mut i = 0;
    while i < 32 {
        file[i] = ser[i];
        i += 1;
    }
    let parsed = Header::from_buf(&file[..Header::LEN + pad]);
    kani::cover!(parsed.is_ok(), "roundtrip ok reachable");
    match parsed {
        Ok(p) => {
            assert!(p.version == 2);
            assert!(p.model_offset == model_offset);
            assert!(p.model_len == model_len);
            assert!(p.tensor_data_offset == tensor_data_offset);
        }
        Err(_) => assert!(false, "valid header rejected"),
    }
    std::mem::forget(ser);
}
