//! Kani harnesses for `rten::ctc` (property C39, greedy decoding only),
//! including the general `arg_max` reduction kernel it calls.
use super::*;

/// Greedy decoding of a [T, L] matrix of symbolic non-NaN log-probabilities:
/// the score is the left-to-right f32 sum of the row maxima (bit-exact: same
/// summation order); when every row has a unique maximum, the labels are the
/// collapsed arg-max path (repeats merged, blanks removed, position of first
/// occurrence).
macro_rules! greedy {
    ($name:ident, $t:expr, $l:expr, $unwind:expr) => {
        #[kani::proof]
        #[kani::unwind($unwind)]
        fn $name() {
            let vals: [f32; $t * $l] = kani::any();
            let mut i = 0;
            while i < $t * $l {
                kani::assume(!vals[i].is_nan());
                i += 1;
            }
            let view = NdTensorView::<f32, 2>::from_data([$t, $l], &vals[..]);
            let hyp = CtcDecoder::new().decode_greedy(view);

            // Reference.
            let mut score = 0.0f32;
            let mut unique = true;
            let mut path = [0usize; $t];
            let mut t = 0;
            while t < $t {
                let mut best = 0usize;
                let mut l = 1;
                while l < $l {
                    if vals[t * $l + l] > vals[t * $l + best] {
                        best = l;
                    }
                    l += 1;
                }
                let mut l = 0;
                while l < $l {
                    if l != best && vals[t * $l + l] == vals[t * $l + best] {
                        unique = false;
                    }
                    l += 1;
                }
                path[t] = best;
                score += vals[t * $l + best];
                t += 1;
            }
            assert!(
                hyp.score().to_bits() == score.to_bits() || (hyp.score() == 0.0 && score == 0.0),
                "greedy score is not the sum of the row maxima"
            );
            if unique {
                kani::cover!(true, "all rows have a unique maximum");
                let steps = hyp.steps();
                let mut n = 0usize;
                let mut last = 0usize;
                let mut t = 0;
                while t < $t {
                    let label = path[t];
                    if label != last {
                        last = label;
                        if label > 0 {
                            assert!(n < steps.len(), "greedy decoding dropped a label");
                            assert!(steps[n].label as usize == label, "wrong label");
                            assert!(steps[n].pos as usize == t, "wrong position");
                            n += 1;
                        }
                    }
                    t += 1;
                }
                assert!(steps.len() == n, "greedy decoding produced extra labels");
            }
            std::mem::forget(hyp);
        }
    };
}
greedy!(c39_q_greedy_2x2, 2, 2, 8);
greedy!(c39_q_greedy_3x2, 3, 2, 8);
greedy!(c39_t_greedy_2x3, 2, 3, 8);
greedy!(c39_t_greedy_3x3, 3, 3, 10);
