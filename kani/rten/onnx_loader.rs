//! Kani harnesses for `rten::model::onnx_loader` (property C05, ONNX
//! initializer clause): `tensor_from_elements` / `tensor_from_bytes` accept a
//! (shape, data) pair from an untrusted ONNX file only if the exact element
//! count equals the data length.
use super::*;
use rten_tensor::Layout;

/// Stub for `alloc::fmt::format` (error messages built with `format!`): the
/// formatting machinery is not the subject and costs CBMC 10+ minutes.
/// Listed in the evidence as an environment stub.
fn fmt_stub(_args: std::fmt::Arguments<'_>) -> String {
    String::new()
}

#[kani::proof]
#[kani::unwind(12)]
#[kani::stub(alloc::fmt::format, fmt_stub)]
fn c05_q_onnx_tensor_from_elements_rank2() {
    let n: usize = kani::any();
    kani::assume(n <= 4);
    let mut data: Vec<i32> = Vec::with_capacity(4);
    let mut k = 0;
    while k < 4 {
        if k < n {
            data.push(k as i32);
        }
        k += 1;
    }
    let shape: [usize; 2] = kani::any();
    let r = tensor_from_elements(&shape, data, None);
    kani::cover!(r.is_ok() && n == 4, "4-element initializer accepted");
    kani::cover!(r.is_err(), "initializer rejected");
    match r {
        Ok(t) => {
            let count = shape[0] as u128 * shape[1] as u128;
            assert!(count == n as u128, "initializer shape does not match its data");
            assert!(t.len() == n);
            std::mem::forget(t);
        }
        Err(e) => std::mem::forget(e),
    }
}

#[kani::proof]
#[kani::unwind(12)]
#[kani::stub(alloc::fmt::format, fmt_stub)]
fn c05_q_onnx_tensor_from_bytes_rank2() {
    let n: usize = kani::any();
    kani::assume(n <= 8);
    let mut data: Vec<u8> = Vec::with_capacity(8);
    let mut k = 0;
    while k < 8 {
        if k < n {
            data.push(k as u8);
        }
        k += 1;
    }
    let shape: [usize; 2] = kani::any();
    let r = tensor_from_bytes::<i32>(&shape, data, None);
    kani::cover!(r.is_ok() && n == 8, "2-element i32 initializer accepted");
    match r {
        Ok(t) => {
            let count = shape[0] as u128 * shape[1] as u128;
            assert!(count * 4 == n as u128, "raw_data initializer shape does not match its data");
            assert!(t.len() as u128 == count);
            std::mem::forget(t);
        }
        Err(e) => std::mem::forget(e),
    }
}

/// FLOAT16 initializers take a separate path (convert_f16_constant: f16 -> f32
/// conversion before the shape check): 2 stored values, rank-1 shape fully
/// symbolic: accepted only if the shape says 2 elements, never a panic.
#[kani::proof]
#[kani::unwind(12)]
#[kani::stub(alloc::fmt::format, fmt_stub)]
fn c05_q_onnx_f16_constant_rank1() {
    let halfs: [i32; 2] = kani::any();
    let shape: [usize; 1] = kani::any();
    let r = convert_f16_constant(None, &shape, None, None, &halfs);
    kani::cover!(r.is_ok(), "f16 initializer accepted");
    kani::cover!(r.is_err(), "f16 initializer rejected");
    match r {
        Ok(c) => {
            assert!(shape[0] == 2, "f16 initializer shape does not match its data");
            std::mem::forget(c);
        }
        Err(e) => {
            assert!(shape[0] != 2, "matching f16 initializer rejected");
            std::mem::forget(e);
        }
    }
}
