//! Kani harnesses for `rten::model::external_data` (property C21, path
//! predicate only): `is_allowed_external_data_path` over every byte string of
//! up to N bytes, including std's `Path::components` / `Path::extension`.
use super::*;
use std::ffi::OsStr;
use std::os::unix::ffi::OsStrExt;

/// Byte-level reading of "a single plain filename with a recognised data
/// extension, directly inside the model directory". `p` is the raw location.
fn model_allows(p: &[u8]) -> bool {
    // Strip trailing "/" and "/." (std normalises them away; the file that
    // would be opened is still the plain name directly in the directory).
    let mut end = p.len();
    let mut k = 0;
    while k < 8 {
        if end >= 1 && p[end - 1] == b'/' {
            end -= 1;
        } else if end >= 2 && p[end - 1] == b'.' && p[end - 2] == b'/' {
            end -= 2;
        }
        k += 1;
    }
    let name = &p[..end];
    if name.is_empty() {
        return false;
    }
    // No separator left: exactly one component, relative.
    let mut i = 0;
    while i < name.len() {
        if name[i] == b'/' {
            return false;
        }
        i += 1;
    }
    if name == b"." || name == b".." {
        return false;
    }
    // Extension: after the last '.', which must not be the first byte.
    let mut dot = 0usize; // 0 = none (a dot at index 0 does not count)
    let mut i = 1;
    while i < name.len() {
        if name[i] == b'.' {
            dot = i;
        }
        i += 1;
    }
    if dot == 0 {
        return false;
    }
    let ext = &name[dot + 1..];
    ext.starts_with(b"data") || ext.starts_with(b"onnx_data")
}

macro_rules! path_predicate {
    ($name:ident, $n:expr, $unwind:expr) => {
        #[kani::proof]
        #[kani::unwind($unwind)]
        fn $name() {
            let bytes: [u8; $n] = kani::any();
            let len: usize = kani::any();
            kani::assume(len <= $n);
            let raw = &bytes[..len];
            let path = Path::new(OsStr::from_bytes(raw));
            let allowed = is_allowed_external_data_path(path);
            kani::cover!(allowed, "some path is accepted");
            kani::cover!(!allowed && len == $n, "some full-length path is rejected");
            let expect = model_allows(raw);
            if allowed {
                // Safety clause: nothing outside the model directory.
                assert!(raw[0] != b'/', "absolute path accepted");
                assert!(expect, "path accepted that is not a plain data filename in the model directory");
            } else {
                // Completeness (a plain data filename is accepted) is stated for
                // ASCII names: a non-UTF-8 extension such as `data\xff` is
                // rejected by `to_str`, which is harmless over-rejection.
                let mut ascii = true;
                let mut k = 0;
                while k < $n {
                    if k < len {
                        ascii &= raw[k] < 0x80;
                    }
                    k += 1;
                }
                if ascii {
                    assert!(!expect, "plain data filename rejected");
                }
            }
        }
    };
}
path_predicate!(c21_q_path_le_6_bytes, 6, 10);
path_predicate!(c21_t_path_le_7_bytes, 7, 11);
// (8 bytes exceeded the memory limit.)

/// Fixed tricky locations, longer than the symbolic bound allows (concrete
/// inputs, one per harness, decided by the same engine): traversal, nesting,
/// absolute, Windows-style, and the accepted split-file form.
macro_rules! path_case {
    ($name:ident, $path:expr, $expect:expr) => {
        #[kani::proof]
        #[kani::unwind(24)]
        fn $name() {
            let p: &[u8] = $path;
            let got = is_allowed_external_data_path(Path::new(OsStr::from_bytes(p)));
            kani::cover!(true, "reached");
            assert!(got == $expect, "fixed location classified wrongly");
        }
    };
}
path_case!(c21_t_case_parent_dir, b"../x.data", false);
path_case!(c21_q_case_nested, b"sub/x.data", false);
path_case!(c21_t_case_absolute, b"/etc/x.data", false);
path_case!(c21_q_case_cur_dir, b"./x.data", false);
path_case!(c21_q_case_split_file, b"m.onnx_data_1", true);
path_case!(c21_t_case_traversal_mid, b"x.data/../y.data", false);
path_case!(c21_t_case_backslash, b"..\\x.data", true);
path_case!(c21_t_case_onnx_data, b"model.onnx_data", true);
// extension rules
path_case!(c21_t_case_ext_contains_data, b"a.xdata", false);
path_case!(c21_q_case_second_extension, b"x.data.exe", false);
path_case!(c21_q_case_empty_stem, b".data", false);
path_case!(c21_t_case_upper_case, b"a.DATA", false);
path_case!(c21_t_case_data_suffix, b"a.data_1", true);
path_case!(c21_t_case_no_extension, b"data", false);
path_case!(c21_t_case_trailing_slash, b"a.data/", true);
