//! Kani harnesses for `rten::model::rten_loader` (property C05, constant
//! loading clause): a constant whose shape and offset come from an untrusted
//! .rten file either fails to load with an error or is backed by exactly
//! `product(shape)` elements that lie inside the file buffer. No panic, no
//! arithmetic overflow.
use super::*;
use rten_tensor::Layout;

fn n_elements<T>(c: &ConstantNodeData<T>) -> usize {
    match c {
        ConstantNodeData::ArcSlice(v) => v.len(),
        ConstantNodeData::Arc(t) => t.len(),
    }
}

macro_rules! storage_offset {
    ($name:ident, $t:ty, $rank:literal) => {
        #[kani::proof]
        #[kani::unwind(20)]
        fn $name() {
            const FILE_LEN: usize = 16;
            let storage = Arc::new(ConstantStorage::Buffer(vec![0u8; FILE_LEN]));
            let shape: [usize; $rank] = kani::any();
            let offset: usize = kani::any();
            let r = constant_data_from_storage_offset::<$t>(&storage, &shape, offset, None);
            kani::cover!(r.is_ok(), "constant accepted");
            kani::cover!(r.is_err(), "constant rejected");
            match r {
                Ok(c) => {
                    // Exact element count and byte range (no wrap-around).
                    let mut count: u128 = 1;
                    let mut k = 0;
                    while k < $rank {
                        count *= shape[k] as u128;
                        k += 1;
                    }
                    let bytes = count * std::mem::size_of::<$t>() as u128;
                    assert!(offset as u128 + bytes <= FILE_LEN as u128, "constant data range outside the file");
                    assert!(n_elements(&c) as u128 == count, "constant element count differs from its shape");
                    std::mem::forget(c);
                }
                Err(e) => std::mem::forget(e),
            }
            std::mem::forget(storage);
        }
    };
}
storage_offset!(c05_q_rten_storage_offset_u8_rank1, u8, 1);
storage_offset!(c05_q_rten_storage_offset_i32_rank1, i32, 1);
storage_offset!(c05_q_rten_storage_offset_u8_rank2, u8, 2);
storage_offset!(c05_t_rten_storage_offset_i32_rank2, i32, 2);

/// Inline constants (FlatBuffers vector + shape from the file): a shape whose
/// element count differs from the vector length must be a load error.
macro_rules! inline_constant {
    ($name:ident, $rank:literal) => {
        #[kani::proof]
        #[kani::unwind(20)]
        fn $name() {
            // FlatBuffers vector of 4 bytes at offset 0: u32 length prefix + data.
            let buf: Vec<u8> = vec![4, 0, 0, 0, 9, 8, 7, 6];
            let storage = Arc::new(ConstantStorage::Buffer(buf));
            // Safety: the buffer holds a valid vector (length prefix 4 + 4 bytes).
            let fb_vec = unsafe { flatbuffers::Vector::<u8>::new(storage.data(), 0) };
            assert!(fb_vec.len() == 4);
            let shape: [usize; $rank] = kani::any();
            let r = constant_data_from_flatbuffers_vec(&storage, fb_vec, &shape, None);
            kani::cover!(r.is_ok(), "inline constant accepted");
            kani::cover!(r.is_err(), "inline constant rejected");
            match r {
                Ok(c) => {
                    let mut count: u128 = 1;
                    let mut k = 0;
                    while k < $rank {
                        count *= shape[k] as u128;
                        k += 1;
                    }
                    assert!(count == 4, "inline constant shape does not match its data");
                    assert!(n_elements(&c) == 4);
                    std::mem::forget(c);
                }
                Err(e) => std::mem::forget(e),
            }
            std::mem::forget(storage);
        }
    };
}
inline_constant!(c05_q_rten_inline_constant_rank1, 1);
inline_constant!(c05_q_rten_inline_constant_rank2, 2);
