//! Kani harnesses for `rten::graph::planner` (property C26, plan-cache gate).
//!
//! `Graph::run` looks up the plan cache with `CachedPlan::matches` *before*
//! the planner's duplicate / node-kind checks run, so a request must only hit
//! the cache when it is a permutation of the cached (duplicate-free) id lists.
//! Otherwise an invalid request bypasses `create_plan` and reaches `run_plan`,
//! which panics instead of returning an error.
use super::*;

fn ids<const N: usize>(raw: [u32; N]) -> [NodeId; N] {
    raw.map(NodeId::from_u32)
}

fn any_small<const N: usize>() -> [u32; N] {
    let a: [u32; N] = kani::any();
    let mut k = 0;
    while k < N {
        kani::assume(a[k] < 6);
        k += 1;
    }
    a
}

fn has_dup(a: &[u32]) -> bool {
    let mut d = false;
    let mut i = 0;
    while i < a.len() {
        let mut j = i + 1;
        while j < a.len() {
            d |= a[i] == a[j];
            j += 1;
        }
        i += 1;
    }
    d
}

/// true iff `q` is a permutation of the duplicate-free list `c` (same length).
fn is_perm(c: &[u32], q: &[u32]) -> bool {
    if c.len() != q.len() || has_dup(q) {
        return false;
    }
    let mut all = true;
    let mut i = 0;
    while i < q.len() {
        let mut found = false;
        let mut j = 0;
        while j < c.len() {
            found |= q[i] == c[j];
            j += 1;
        }
        all &= found;
        i += 1;
    }
    all
}

macro_rules! matches_iff_permutation {
    ($name:ident, $ni:expr, $no:expr, $unwind:expr) => {
        #[kani::proof]
        #[kani::unwind($unwind)]
        fn $name() {
            // Cached plan: created only after create_plan succeeded, hence its
            // id lists are duplicate free.
            let ci: [u32; $ni] = any_small();
            let co: [u32; $no] = any_small();
            kani::assume(!has_dup(&ci) && !has_dup(&co));
            let plan = CachedPlan::new(&ids(ci), &ids(co), Vec::new());
            // Arbitrary request of the same lengths (other lengths never match:
            // covered by the length harness below).
            let qi: [u32; $ni] = any_small();
            let qo: [u32; $no] = any_small();
            let got = plan.matches(&ids(qi), &ids(qo));
            let expect = is_perm(&ci, &qi) && is_perm(&co, &qo);
            kani::cover!(got, "cache hit reachable");
            kani::cover!(has_dup(&qi) || has_dup(&qo), "request with duplicates reachable");
            assert!(got == expect, "plan cache hit for a request that is not a permutation of the cached ids");
            std::mem::forget(plan);
        }
    };
}
matches_iff_permutation!(c26_q_matches_2in_1out, 2, 1, 6);
matches_iff_permutation!(c26_q_matches_1in_2out, 1, 2, 6);
matches_iff_permutation!(c26_q_matches_3in_1out, 3, 1, 8);
matches_iff_permutation!(c26_t_matches_3in_3out, 3, 3, 8);
matches_iff_permutation!(c26_t_matches_4in_2out, 4, 2, 10);

/// Requests whose list lengths differ from the cached plan never match
/// (request lengths concrete per harness).
macro_rules! length_mismatch {
    ($name:ident, $n:expr) => {
        #[kani::proof]
        #[kani::unwind(8)]
        fn $name() {
            let ci: [u32; 2] = any_small();
            kani::assume(ci[0] != ci[1]);
            let plan = CachedPlan::new(&ids(ci), &ids([0u32]), Vec::new());
            let q: [u32; $n] = any_small();
            kani::cover!(true, "reached");
            assert!(!plan.matches(&ids(q), &ids([0u32])), "request of a different length matched");
            assert!(!plan.matches(&ids(ci), &ids([0u32, 1u32])), "request with more outputs matched");
            std::mem::forget(plan);
        }
    };
}
length_mismatch!(c26_q_matches_length_mismatch_1, 1);
length_mismatch!(c26_q_matches_length_mismatch_3, 3);

/// List lengths that differ in opposite directions (one list longer, the other
/// shorter by the same amount, so that the total number of ids is unchanged)
/// never match either.
#[kani::proof]
#[kani::unwind(8)]
fn c26_q_matches_length_tradeoff() {
    let ci: [u32; 2] = any_small();
    let co: [u32; 2] = any_small();
    kani::assume(ci[0] != ci[1] && co[0] != co[1]);
    let plan = CachedPlan::new(&ids(ci), &ids(co), Vec::new());
    let q3: [u32; 3] = any_small();
    let q1: [u32; 1] = any_small();
    kani::cover!(q3[0] == ci[0] && q3[1] == ci[1], "longer list starts with the cached ids");
    assert!(!plan.matches(&ids(q3), &ids(q1)), "3 inputs + 1 output matched a plan cached for 2 + 2");
    assert!(!plan.matches(&ids(q1), &ids(q3)), "1 input + 3 outputs matched a plan cached for 2 + 2");
    std::mem::forget(plan);
}

/// `first_duplicate_by` (the planner's duplicate check) returns Some iff a
/// duplicate exists, and what it returns is a duplicated element.
#[kani::proof]
#[kani::unwind(8)]
fn c26_q_first_duplicate() {
    let a: [u32; 4] = any_small();
    let n: usize = kani::any();
    kani::assume(n <= 4);
    let r = first_duplicate_by(&a[..n], |x, y| x == y);
    kani::cover!(r.is_some(), "duplicate found");
    assert!(r.is_some() == has_dup(&a[..n]));
    if let Some(x) = r {
        let mut count = 0;
        let mut k = 0;
        while k < 4 {
            if k < n && a[k] == *x {
                count += 1;
            }
            k += 1;
        }
        assert!(count >= 2);
    }
}
