//! Kani harnesses for `rten::buffer_pool` (property C23): one arbitrary step
//! (`alloc::<T>(req)` with symbolic `req`, or `add`) from a member of a family
//! of pool states with concrete buffer capacities/types. All pool state sits
//! behind one `Mutex`, so every interleaving of concurrent calls is equivalent
//! to some sequential order of such steps (argued in DESIGN.md, not solved).
use super::*;

fn layout_of<T>(cap: usize) -> std::alloc::Layout {
    std::alloc::Layout::array::<T>(cap).unwrap()
}

/// Pool pre-state: two pooled buffers made from `Vec<$a>` with capacity $ca
/// and `Vec<$b>` with capacity $cb; one `alloc::<$t>(req)`.
macro_rules! alloc_step {
    ($name:ident, $a:ty, $ca:expr, $b:ty, $cb:expr, $t:ty, $min:expr, $maxreq:expr) => {
        #[kani::proof]
        #[kani::unwind(6)]
        fn $name() {
            let pool = BufferPool::new().with_min_size($min);
            let va: Vec<$a> = Vec::with_capacity($ca);
            let vb: Vec<$b> = Vec::with_capacity($cb);
            let (ca, cb) = (va.capacity(), vb.capacity());
            let pa = va.as_ptr() as usize;
            let pb = vb.as_ptr() as usize;
            pool.add(va);
            pool.add(vb);
            let in_a = ca * std::mem::size_of::<$a>() >= $min;
            let in_b = cb * std::mem::size_of::<$b>() >= $min;
            assert!(pool.len() == (in_a as usize) + (in_b as usize), "add() ignored the minimum-size rule");

            let req: usize = kani::any();
            kani::assume(req <= $maxreq);
            let out: Vec<$t> = pool.alloc(req);
            let po = out.as_ptr() as usize;
            assert!(out.capacity() >= req, "allocation smaller than requested");
            assert!(out.len() == 0);

            // Reference rule for "buffer X can serve Vec<$t> with capacity req".
            let small = req * std::mem::size_of::<$t>() < $min;
            let fit_a = in_a && !small && layout_of::<$t>(ca) == layout_of::<$a>(ca) && ca >= req;
            let fit_b = in_b && !small && layout_of::<$t>(cb) == layout_of::<$b>(cb) && cb >= req;
            let expect_a = fit_a && (!fit_b || ca <= cb);
            let expect_b = fit_b && !expect_a;
            // Reachability witness (which of reuse-first / reuse-second / fresh are
            // possible depends on the instantiation's types, so a single witness).
            kani::cover!(true, "alloc returned and the expected outcome was computed");

            let remaining = pool.len();
            if expect_a {
                assert!(po == pa, "best-fit buffer not chosen");
                assert!(out.capacity() == ca);
                assert!(remaining == in_b as usize);
            } else if expect_b {
                assert!(po == pb, "best-fit buffer not chosen");
                assert!(out.capacity() == cb);
                assert!(remaining == in_a as usize);
            } else {
                // Fresh allocation: nothing taken from the pool, and the pooled
                // buffers were not handed out.
                assert!(remaining == (in_a as usize) + (in_b as usize));
                assert!(!(in_a && po == pa) && !(in_b && po == pb), "pooled buffer handed out although it does not fit");
            }
            // No double hand-out: the returned buffer is no longer in the pool.
            {
                let bufs = pool.buffers.lock().unwrap();
                let mut k = 0;
                while k < bufs.len() {
                    assert!(bufs[k].ptr as usize != po || out.capacity() == 0, "buffer still pooled after hand-out");
                    k += 1;
                }
            }
            // Dropping `out` and `pool` here frees every buffer; CBMC checks
            // each deallocation (layout match, no double free).
        }
    };
}
// same type, both fit / one fits / none fits depending on req
alloc_step!(c23_q_alloc_u32x4_u32x6_as_f32, u32, 4, u32, 6, f32, 8, 8);
// fitting buffer pooled *before* a too-small one of the same layout
alloc_step!(c23_q_alloc_u32x6_u32x4_as_f32, u32, 6, u32, 4, f32, 8, 8);
// equal capacities: the first pooled buffer wins the tie
alloc_step!(c23_q_alloc_u32x4_u32x4_as_f32, u32, 4, u32, 4, f32, 8, 6);
// mixed element sizes where byte order and element-count order disagree
alloc_step!(c23_q_alloc_u8x16_u32x5_as_f32, u8, 16, u32, 5, f32, 8, 10);
// different size classes: only the u64 buffer can serve an i64 request
alloc_step!(c23_q_alloc_u32x4_u64x2_as_i64, u32, 4, u64, 2, i64, 8, 4);
// same size, larger alignment requested: [u16;2] (align 2) must not serve u32 (align 4)
alloc_step!(c23_q_alloc_u16pairx4_u32x4_as_u32, [u16; 2], 4, u32, 4, u32, 8, 6);
// same element size, *smaller* alignment requested: must not reuse (dealloc layout differs)
alloc_step!(c23_q_alloc_u32x4_u64x2_as_u16pair, u32, 4, u64, 2, [u16; 2], 8, 6);
// around the minimum-size threshold: first buffer below min_size is not pooled
alloc_step!(c23_q_alloc_u8x4_u8x16_as_i8, u8, 4, u8, 16, i8, 8, 20);
alloc_step!(c23_t_alloc_u32x16_u32x24_as_f32, u32, 16, u32, 24, f32, 32, 64);
alloc_step!(c23_t_alloc_u32x24_u32x16_as_f32, u32, 24, u32, 16, f32, 32, 64);
alloc_step!(c23_t_alloc_f32x8_f32x8_as_u32, f32, 8, f32, 8, u32, 16, 32);
alloc_step!(c23_t_alloc_u64x4_u8x32_as_u8, u64, 4, u8, 32, u8, 16, 64);
alloc_step!(c23_t_alloc_i16x32_u16x16_as_i16, i16, 32, u16, 16, i16, 32, 64);

/// Buffer round trip: from_vec -> into_vec::<U> succeeds iff the array layouts
/// agree, preserves pointer and capacity, and is freed once.
macro_rules! buffer_roundtrip {
    ($name:ident, $a:ty, $cap:expr, $u:ty) => {
        #[kani::proof]
        #[kani::unwind(6)]
        fn $name() {
            let mut v: Vec<$a> = Vec::with_capacity($cap);
            let n: usize = kani::any();
            kani::assume(n <= 2);
            let mut k = 0;
            while k < 2 {
                if k < n {
                    v.push(unsafe { std::mem::zeroed() });
                }
                k += 1;
            }
            let cap = v.capacity();
            let p = v.as_ptr() as usize;
            let buf = Buffer::from_vec(v);
            assert!(buf.capacity == cap && buf.ptr as usize == p);
            let same = std::mem::size_of::<$a>() == std::mem::size_of::<$u>()
                && std::mem::align_of::<$a>() == std::mem::align_of::<$u>();
            assert!(buf.can_fit::<$u>(cap) == same);
            assert!(!buf.can_fit::<$u>(cap + 1));
            kani::cover!(true, "buffer created, about to convert");
            match buf.into_vec::<$u>() {
                Some(w) => {
                    assert!(same);
                    assert!(w.len() == 0 && w.capacity() == cap && w.as_ptr() as usize == p);
                }
                None => assert!(!same),
            }
        }
    };
}
buffer_roundtrip!(c23_q_buffer_u32_to_f32, u32, 8, f32);
buffer_roundtrip!(c23_q_buffer_u16pair_to_u32, [u16; 2], 8, u32);
buffer_roundtrip!(c23_q_buffer_u64_to_u32, u64, 4, u32);
buffer_roundtrip!(c23_q_buffer_u32_to_u16pair, u32, 8, [u16; 2]);
buffer_roundtrip!(c23_t_buffer_u64_to_u32pair, u64, 4, [u32; 2]);
buffer_roundtrip!(c23_t_buffer_u8_to_i8, u8, 16, i8);

/// Three pooled buffers of mixed element sizes (byte order and element-count
/// order of the pool disagree): whatever the pool's internal order or search
/// strategy, `alloc::<f32>(req)` returns enough capacity, and a reused buffer
/// is the only layout-compatible one and is removed from the pool.
#[kani::proof]
#[kani::unwind(6)]
fn c23_q_alloc_three_buffers_mixed() {
    let pool = BufferPool::new().with_min_size(8);
    let a: Vec<u8> = Vec::with_capacity(8);
    let b: Vec<u8> = Vec::with_capacity(16);
    let c: Vec<f32> = Vec::with_capacity(5);
    let pc = c.as_ptr() as usize;
    let (ca, cb, cc) = (a.capacity(), b.capacity(), c.capacity());
    pool.add(a);
    pool.add(b);
    pool.add(c);
    assert!(pool.len() == 3);
    let req: usize = kani::any();
    kani::assume(req <= 10);
    let out: Vec<f32> = pool.alloc(req);
    kani::cover!(req == 7, "request larger than the only f32 buffer");
    assert!(out.capacity() >= req, "allocation smaller than requested");
    let reuse_expected = req * 4 >= 8 && req <= cc;
    if reuse_expected {
        assert!(out.as_ptr() as usize == pc && out.capacity() == cc, "compatible pooled buffer not reused");
        assert!(pool.len() == 2);
    } else {
        assert!(out.as_ptr() as usize != pc, "pooled buffer handed out although it does not fit");
        assert!(pool.len() == 3);
    }
    let _ = (ca, cb);
}
