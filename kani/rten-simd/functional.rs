//! Kani harnesses for `rten_simd::functional` + the generic (portable) ISA
//! (property C18, generic-ISA part): the vector body / masked tail logic of
//! `simd_map` and `simd_apply` never reads or writes outside the slice it was
//! given (CBMC pointer checks + guard elements around the slice) and computes
//! the scalar definition lane by lane, for every slice length from 0 to two
//! vectors plus a tail. AVX2/AVX-512 are intrinsics and out of reach.
use super::*;
use crate::arch::generic::GenericIsa;
use crate::ops::{BitOps, IntOps, MaskOps, NumOps};
use crate::{Isa, Mask, Simd};
use std::mem::MaybeUninit;

const GUARD: i32 = 0x5a5a_5a5a;

/// In-place simd_map over i32 (4 lanes): x -> (x ^ K) & !x, lengths 0..=9.
#[kani::proof]
#[kani::unwind(12)]
fn c18_q_simd_map_inplace_i32() {
    let isa = GenericIsa::new();
    let ops = isa.i32();
    let mut buf: [i32; 13] = kani::any();
    buf[0] = GUARD;
    buf[1] = GUARD;
    let orig = buf;
    let len: usize = kani::any();
    kani::assume(len <= 9);
    buf[2 + len] = GUARD;
    let k = 0x0f0f_1234;
    {
        let xs = &mut buf[2..2 + len];
        let out = simd_map(ops, xs, |x| ops.and(ops.xor(x, ops.splat(k)), ops.not(x)));
        assert!(out.len() == len);
    }
    kani::cover!(len == 9, "two vectors and a tail");
    kani::cover!(len == 3, "tail only");
    let i: usize = kani::any();
    kani::assume(i < len);
    let x = orig[2 + i];
    assert!(buf[2 + i] == ((x ^ k) & !x), "lane differs from the scalar definition");
    assert!(buf[0] == GUARD && buf[1] == GUARD && buf[2 + len] == GUARD, "guard element overwritten");
}

/// Out-of-place simd_map over i32 into uninitialised memory: every output
/// element is initialised with the scalar result, nothing else is written.
#[kani::proof]
#[kani::unwind(12)]
fn c18_q_simd_map_src_dest_i32() {
    let isa = GenericIsa::new();
    let ops = isa.i32();
    let src: [i32; 9] = kani::any();
    let mut dst: [MaybeUninit<i32>; 11] = [MaybeUninit::new(GUARD); 11];
    let len: usize = kani::any();
    kani::assume(len <= 9);
    {
        let out = simd_map(ops, (&src[..len], &mut dst[1..1 + len]), |x| ops.max(x, ops.splat(7)));
        assert!(out.len() == len);
    }
    kani::cover!(len == 5, "one vector and a tail");
    let i: usize = kani::any();
    kani::assume(i < len);
    let got = unsafe { dst[1 + i].assume_init() };
    assert!(got == if src[i] > 7 { src[i] } else { 7 });
    assert!(unsafe { dst[0].assume_init() } == GUARD);
    assert!(unsafe { dst[1 + len].assume_init() } == GUARD);
}

/// simd_apply with UNROLL = 2 over i32 (4 lanes): lengths 0..=14 cover the
/// unrolled body (8), the single-vector loop (4) and the masked tail.
#[kani::proof]
#[kani::unwind(16)]
fn c18_q_simd_apply_unroll2_i32() {
    let isa = GenericIsa::new();
    let ops = isa.i32();
    let mut buf: [i32; 16] = kani::any();
    buf[0] = GUARD;
    let orig = buf;
    let len: usize = kani::any();
    kani::assume(len <= 14);
    buf[1 + len] = GUARD;
    {
        let xs = &mut buf[1..1 + len];
        simd_apply::<i32, _, _, 2>(ops, xs, |x| ops.xor(x, ops.splat(0x3c3c)));
    }
    kani::cover!(len == 14, "unrolled body + vector + tail");
    kani::cover!(len == 5, "one vector + tail");
    let i: usize = kani::any();
    kani::assume(i < len);
    assert!(buf[1 + i] == orig[1 + i] ^ 0x3c3c, "lane differs from the scalar definition");
    assert!(buf[0] == GUARD && buf[1 + len] == GUARD, "guard element overwritten");
}

/// Masked load/store of the u8 vector (16 lanes) through simd_map for lengths
/// 0..=18 (one vector + tail).
#[kani::proof]
#[kani::unwind(20)]
fn c18_t_simd_map_inplace_u8() {
    let isa = GenericIsa::new();
    let ops = isa.u8();
    let mut buf: [u8; 20] = kani::any();
    buf[0] = 0xa5;
    let orig = buf;
    let len: usize = kani::any();
    kani::assume(len <= 18);
    buf[1 + len] = 0xa5;
    {
        let xs = &mut buf[1..1 + len];
        simd_map(ops, xs, |x| ops.xor(x, ops.splat(0x3c)));
    }
    kani::cover!(len == 18, "one vector + tail");
    let i: usize = kani::any();
    kani::assume(i < len);
    assert!(buf[1 + i] == orig[1 + i] ^ 0x3c, "lane differs from the scalar definition");
    assert!(buf[0] == 0xa5 && buf[1 + len] == 0xa5, "guard element overwritten");
}

/// Generic-ISA i32 primitives agree with their scalar definitions lane by
/// lane (comparisons, min/max, select, shifts, bit ops); add/sub/mul under the
/// assumption that they do not overflow (the generic ISA uses `+`/`-`/`*`,
/// which panic on overflow in the dev profile Kani models and wrap in release,
/// where the x86 kernels wrap too).
#[kani::proof]
#[kani::unwind(6)]
fn c18_q_generic_i32_ops_scalar_def() {
    let isa = GenericIsa::new();
    let ops = isa.i32();
    let a: [i32; 4] = kani::any();
    let b: [i32; 4] = kani::any();
    let va = ops.load(&a);
    let vb = ops.load(&b);
    let lane: usize = kani::any();
    kani::assume(lane < 4);
    let (x, y) = (a[lane], b[lane]);
    assert!(ops.min(va, vb).to_array()[lane] == x.min(y));
    assert!(ops.max(va, vb).to_array()[lane] == x.max(y));
    assert!(ops.and(va, vb).to_array()[lane] == x & y);
    assert!(ops.or(va, vb).to_array()[lane] == x | y);
    assert!(ops.xor(va, vb).to_array()[lane] == x ^ y);
    assert!(ops.not(va).to_array()[lane] == !x);
    let gt = ops.gt(va, vb);
    let ge = ops.ge(va, vb);
    let eq = ops.eq(va, vb);
    assert!(gt.to_array()[lane] == (x > y));
    assert!(ge.to_array()[lane] == (x >= y));
    assert!(eq.to_array()[lane] == (x == y));
    assert!(ops.select(va, vb, gt).to_array()[lane] == if x > y { x } else { y });
    assert!(ops.shift_left::<3>(va).to_array()[lane] == x << 3);
    assert!(ops.shift_right::<3>(va).to_array()[lane] == x >> 3);
    if x.checked_add(y).is_some() {
        kani::assume(a[0].checked_add(b[0]).is_some() && a[1].checked_add(b[1]).is_some());
        kani::assume(a[2].checked_add(b[2]).is_some() && a[3].checked_add(b[3]).is_some());
        assert!(ops.add(va, vb).to_array()[lane] == x + y);
    }
    let m = isa.m32();
    kani::cover!(m.any(gt) && !m.all(gt), "mixed comparison mask");
}

/// simd_apply with UNROLL = 3 over i32 (4 lanes): lengths 0..=14 include
/// remainders of more than two full vectors after the unrolled body.
#[kani::proof]
#[kani::unwind(16)]
fn c18_q_simd_apply_unroll3_i32() {
    let isa = GenericIsa::new();
    let ops = isa.i32();
    let mut buf: [i32; 16] = kani::any();
    buf[0] = GUARD;
    let orig = buf;
    let len: usize = kani::any();
    kani::assume(len <= 14);
    buf[1 + len] = GUARD;
    {
        let xs = &mut buf[1..1 + len];
        simd_apply::<i32, _, _, 3>(ops, xs, |x| ops.xor(x, ops.splat(0x5a5a)));
    }
    kani::cover!(len == 11, "two vectors and a tail after no unrolled block");
    kani::cover!(len == 14, "unrolled block + tail");
    let i: usize = kani::any();
    kani::assume(i < len);
    assert!(buf[1 + i] == orig[1 + i] ^ 0x5a5a, "lane differs from the scalar definition");
    assert!(buf[0] == GUARD && buf[1 + len] == GUARD, "guard element overwritten");
}

/// Masked load/store of the generic ISA with an *arbitrary* mask (not only the
/// prefix masks of the tail logic): exactly the active lanes are read/written.
#[kani::proof]
#[kani::unwind(6)]
fn c18_q_generic_masked_load_store_any_mask() {
    let isa = GenericIsa::new();
    let ops = isa.i32();
    let a: [i32; 4] = kani::any();
    let b: [i32; 4] = kani::any();
    // Mask lane k is active iff a[k] > b[k] (as produced by a comparison).
    let mask = ops.gt(ops.load(&a), ops.load(&b));
    let src: [i32; 4] = kani::any();
    let mut dst: [i32; 6] = [GUARD; 6];
    let v = unsafe { ops.load_ptr_mask(src.as_ptr(), mask) };
    unsafe { ops.store_ptr_mask(v, dst.as_mut_ptr().add(1), mask) };
    let lane: usize = kani::any();
    kani::assume(lane < 4);
    let active = a[lane] > b[lane];
    kani::cover!(!(a[0] > b[0]) && a[1] > b[1], "mask with a hole before an active lane");
    assert!(v.to_array()[lane] == if active { src[lane] } else { 0 }, "masked load lane wrong");
    assert!(dst[1 + lane] == if active { src[lane] } else { GUARD }, "masked store lane wrong");
    assert!(dst[0] == GUARD && dst[5] == GUARD, "masked store wrote outside its vector");
}

/// Generic-ISA u8 primitives (16 lanes) agree with their scalar definitions.
#[kani::proof]
#[kani::unwind(18)]
fn c18_q_generic_u8_ops_scalar_def() {
    let isa = GenericIsa::new();
    let ops = isa.u8();
    let a: [u8; 16] = kani::any();
    let b: [u8; 16] = kani::any();
    let va = ops.load(&a);
    let vb = ops.load(&b);
    let lane: usize = kani::any();
    kani::assume(lane < 16);
    let (x, y) = (a[lane], b[lane]);
    assert!(ops.min(va, vb).to_array()[lane] == x.min(y));
    assert!(ops.max(va, vb).to_array()[lane] == x.max(y));
    assert!(ops.and(va, vb).to_array()[lane] == x & y);
    assert!(ops.xor(va, vb).to_array()[lane] == x ^ y);
    assert!(ops.not(va).to_array()[lane] == !x);
    let gt = ops.gt(va, vb);
    assert!(gt.to_array()[lane] == (x > y));
    assert!(ops.ge(va, vb).to_array()[lane] == (x >= y));
    assert!(ops.eq(va, vb).to_array()[lane] == (x == y));
    assert!(ops.select(va, vb, gt).to_array()[lane] == if x > y { x } else { y });
    assert!(ops.shift_left::<2>(va).to_array()[lane] == x << 2);
    assert!(ops.shift_right::<2>(va).to_array()[lane] == x >> 2);
    kani::cover!(x > y && lane == 15, "last lane greater");
}

/// No over-read: the source slice is the *tail* of its allocation, so any read
/// past the slice end leaves the object and is flagged by CBMC's pointer
/// checks (a masked tail load must not touch the lanes beyond `len`).
#[kani::proof]
#[kani::unwind(12)]
fn c18_q_simd_map_no_overread_i32() {
    let isa = GenericIsa::new();
    let ops = isa.i32();
    let src: [i32; 9] = kani::any();
    let mut dst: [MaybeUninit<i32>; 9] = [MaybeUninit::new(GUARD); 9];
    let len: usize = kani::any();
    kani::assume(len <= 9);
    {
        let s = &src[9 - len..];
        let d = &mut dst[9 - len..];
        let out = simd_map(ops, (s, d), |x| ops.xor(x, ops.splat(1)));
        assert!(out.len() == len);
    }
    kani::cover!(len == 7, "one vector and a 3-lane tail");
    let i: usize = kani::any();
    kani::assume(i < len);
    assert!(unsafe { dst[9 - len + i].assume_init() } == src[9 - len + i] ^ 1);
}

/// Same for the in-place form on the tail of an allocation.
#[kani::proof]
#[kani::unwind(12)]
fn c18_q_simd_map_inplace_tail_of_object() {
    let isa = GenericIsa::new();
    let ops = isa.i32();
    let mut buf: [i32; 9] = kani::any();
    let orig = buf;
    let len: usize = kani::any();
    kani::assume(len <= 9);
    {
        let xs = &mut buf[9 - len..];
        simd_map(ops, xs, |x| ops.xor(x, ops.splat(1)));
    }
    kani::cover!(len == 6, "one vector and a 2-lane tail");
    let i: usize = kani::any();
    kani::assume(i < 9);
    assert!(buf[i] == if i >= 9 - len { orig[i] ^ 1 } else { orig[i] });
}
