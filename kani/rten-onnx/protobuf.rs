//! Kani harnesses for `rten_onnx::protobuf` (property C38; shared with C05).
//!
//! Termination is decided by CBMC's unwinding assertions: each harness's
//! `#[kani::unwind(n)]` is derived from the documented bound of the loop it
//! drives (a varint has at most 10 bytes, so 12 iterations of the refill loop
//! over an 11-byte buffer is more than any terminating run can take).
use super::errors::{ErrorKind, ProtobufError};
use super::value::{FieldTypes, LimitReader, OwnedValues, ReadValue, ValueReader};
use super::varint::{read_varint, VarintError};
use std::io::Cursor;

/// Reference varint decoder (protobuf spec): little-endian base-128, at most
/// 10 bytes, the 10th byte may only contribute one bit.
fn ref_varint(bytes: &[u8]) -> Option<(u64, usize)> {
    let mut value: u64 = 0;
    let mut i = 0;
    while i < 10 {
        if i >= bytes.len() {
            return None;
        }
        let b = bytes[i];
        if i == 9 && b > 1 {
            return None;
        }
        value |= ((b & 0x7f) as u64) << (7 * i);
        if b < 0x80 {
            return Some((value, i + 1));
        }
        i += 1;
    }
    None
}

/// (a) `read_varint` over every buffer of 0..=11 bytes: terminates within the
/// unwinding bound, agrees with the reference decoder, and consumes exactly
/// the bytes of the varint it decoded.
#[kani::proof]
#[kani::unwind(13)]
fn c38_q_read_varint_le_11_bytes() {
    let bytes: [u8; 11] = kani::any();
    let len: usize = kani::any();
    kani::assume(len <= 11);
    let mut cur = Cursor::new(&bytes[..len]);
    let r = read_varint(&mut cur);
    let expect = ref_varint(&bytes[..len]);
    kani::cover!(matches!(expect, Some((_, 10))), "10-byte varint reachable");
    match r {
        Ok(v) => {
            let (ev, n) = expect.unwrap();
            assert!(v == ev, "varint value differs from the reference");
            assert!(cur.position() == n as u64, "varint consumed the wrong number of bytes");
        }
        // `Eof` is also what a varint cut off by the end of the input gives
        // (documented for InvalidVarint, but either is an error, which is all
        // the property asks for): no complete varint may exist in that case.
        Err(VarintError::Eof) => assert!(expect.is_none()),
        Err(VarintError::InvalidVarint) => assert!(expect.is_none()),
        Err(VarintError::IoError(_)) => assert!(false, "Cursor cannot fail"),
    }
    assert!(cur.position() <= len as u64);
}

/// (a') same through a reader whose buffer holds one byte at a time (the
/// refill path of a `BufReader`), 0..=11 bytes.
struct OneByte<'a> {
    buf: &'a [u8],
    pos: usize,
}
impl std::io::Read for OneByte<'_> {
    fn read(&mut self, _: &mut [u8]) -> std::io::Result<usize> {
        Ok(0)
    }
}
impl std::io::BufRead for OneByte<'_> {
    fn fill_buf(&mut self) -> std::io::Result<&[u8]> {
        let end = (self.pos + 1).min(self.buf.len());
        Ok(&self.buf[self.pos..end])
    }
    fn consume(&mut self, n: usize) {
        self.pos += n;
    }
}
#[kani::proof]
#[kani::unwind(13)]
fn c38_q_read_varint_refill_le_11_bytes() {
    let bytes: [u8; 11] = kani::any();
    let len: usize = kani::any();
    kani::assume(len <= 11);
    let mut src = OneByte { buf: &bytes[..len], pos: 0 };
    let r = read_varint(&mut src);
    let expect = ref_varint(&bytes[..len]);
    kani::cover!(matches!(expect, Some((_, 10))), "10-byte varint reachable");
    match r {
        Ok(v) => {
            let (ev, n) = expect.unwrap();
            assert!(v == ev);
            assert!(src.pos == n);
        }
        Err(VarintError::Eof) => assert!(expect.is_none()),
        Err(VarintError::InvalidVarint) => assert!(expect.is_none()),
        Err(VarintError::IoError(_)) => assert!(false),
    }
    assert!(src.pos <= len);
}

/// Environment stub for the LimitReader arithmetic: a `ReadValue` whose
/// position is an arbitrary u64 and whose reads succeed without touching any
/// data; it records the lengths it is asked for.
struct ModelReader {
    pos: u64,
    last_len: Option<usize>,
    /// Set when a read was let through whose end is not a representable
    /// stream position (LimitReader must have rejected it).
    overflow: bool,
}
impl ModelReader {
    fn advance(&mut self, n: u64) {
        match self.pos.checked_add(n) {
            Some(p) => self.pos = p,
            None => {
                self.overflow = true;
                self.pos = u64::MAX;
            }
        }
    }
}
impl ReadValue for ModelReader {
    type Types = OwnedValues;
    fn read_i32(&mut self) -> Result<i32, ProtobufError> {
        self.last_len = Some(4);
        self.advance(4);
        Ok(0)
    }
    fn read_i64(&mut self) -> Result<i64, ProtobufError> {
        self.last_len = Some(8);
        self.advance(8);
        Ok(0)
    }
    fn read_varint(&mut self) -> Result<u64, ProtobufError> {
        // A varint occupies 1..=10 bytes; LimitReader only checks for one.
        let n: u64 = kani::any();
        kani::assume(n >= 1 && n <= 10);
        self.last_len = Some(n as usize);
        self.advance(n);
        Ok(kani::any())
    }
    fn read_bytes(&mut self, len: usize) -> Result<<Self::Types as FieldTypes>::Bytes, ProtobufError> {
        self.last_len = Some(len);
        self.advance(len as u64);
        Ok(Vec::new())
    }
    fn read_string(&mut self, len: usize) -> Result<<Self::Types as FieldTypes>::String, ProtobufError> {
        self.last_len = Some(len);
        self.advance(len as u64);
        Ok(String::new())
    }
    fn skip(&mut self, len: usize) -> Result<(), ProtobufError> {
        self.last_len = Some(len);
        self.advance(len as u64);
        Ok(())
    }
    fn position(&self) -> u64 {
        self.pos
    }
}

/// (c) LimitReader: for any position, any field length and any requested read
/// length (all full-width u64), no arithmetic overflows, and a read is passed
/// to the underlying reader only if `position + len` (exact) is within the
/// field: "field lengths larger than the remaining input are errors".
#[kani::proof]
#[kani::unwind(3)]
fn c38_q_limit_reader_arith() {
    let pos: u64 = kani::any();
    let field_len: u64 = kani::any();
    let req: usize = kani::any();
    // Leave room for one tag varint so that the stub itself cannot overflow.
    kani::assume(pos <= u64::MAX - 16);
    let mut inner = ModelReader { pos, last_len: None, overflow: false };
    // Top-level readers start at position 0 with limit u64::MAX; nested ones
    // are made with sub_limit at an arbitrary position.
    let top_limit: u64 = kani::any();
    kani::assume(pos as u128 + top_limit as u128 <= u64::MAX as u128);
    let mut top = LimitReader::new(&mut inner, top_limit);
    // Optionally read a tag varint first: it may be longer than what is left
    // of the enclosing message, leaving the position *past* the limit (the
    // reader only checks that one byte is available).
    let tag_first: bool = kani::any();
    if tag_first {
        match top.read_varint() {
            Ok(_) => {}
            Err(e) => {
                std::mem::forget(e);
                return;
            }
        }
    }
    let pos = top.position();
    kani::cover!(tag_first && pos > 5, "position advanced by a multi-byte tag");
    let mut sub = top.sub_limit(field_len);
    let which: u8 = kani::any();
    let ok = match which {
        0 => sub.read_bytes(req).is_ok(),
        1 => sub.skip(req).is_ok(),
        2 => sub.read_string(req).is_ok(),
        _ => sub.read_i64().is_ok(),
    };
    let req_eff: u128 = if which <= 2 { req as u128 } else { 8 };
    kani::cover!(ok, "accepted read");
    kani::cover!(!ok, "rejected read");
    if ok {
        assert!(
            pos as u128 + req_eff <= pos as u128 + field_len as u128,
            "read beyond the end of the field was accepted"
        );
    } else {
        // Rejected: either the read does not fit in the field, or the end of
        // the read is not representable as a stream position at all.
        assert!(
            req_eff > field_len as u128 || pos as u128 + req_eff > u64::MAX as u128,
            "read inside the field was rejected"
        );
    }
    assert!(!inner.overflow, "a read whose end overflows the stream position was let through");
}

/// (c') `ValueReader::skip` / `read_bytes` on an in-memory buffer with a fully
/// symbolic length: Ok => the position advanced by exactly `len` and did not
/// pass the end of the input; a length larger than the remaining input is an
/// error; the position never moves backwards.
#[kani::proof]
#[kani::unwind(10)]
fn c38_q_value_reader_skip() {
    let bytes: [u8; 8] = kani::any();
    let n: usize = kani::any();
    kani::assume(n <= 8);
    let mut r = ValueReader::from_buf(&bytes[..n]);
    let pre: usize = kani::any();
    kani::assume(pre <= n);
    match r.skip(pre) {
        Ok(()) => {}
        Err(e) => {
            std::mem::forget(e);
            assert!(false, "skip inside the input rejected");
        }
    }
    assert!(r.position() == pre as u64);
    let len: usize = kani::any();
    let res = r.skip(len);
    kani::cover!(res.is_ok() && len > 0, "non-trivial skip accepted");
    kani::cover!(res.is_err(), "skip rejected");
    match res {
        Ok(()) => {
            assert!(len <= n - pre, "skip past the end of the input accepted");
            assert!(r.position() == (pre + len) as u64);
        }
        Err(e) => {
            assert!(len > n - pre, "skip inside the input rejected");
            assert!(r.position() >= pre as u64, "position moved backwards");
            std::mem::forget(e);
        }
    }
}

#[kani::proof]
#[kani::unwind(10)]
fn c38_q_value_reader_read_bytes() {
    let bytes: [u8; 8] = kani::any();
    let n: usize = kani::any();
    kani::assume(n <= 8);
    let mut r = ValueReader::from_buf(&bytes[..n]);
    let len: usize = kani::any();
    let res = r.read_bytes(len);
    kani::cover!(res.is_ok() && len == 3, "3 bytes read");
    match res {
        Ok(v) => {
            assert!(len <= n, "read past the end accepted");
            assert!(v.len() == len);
            assert!(r.position() == len as u64);
            std::mem::forget(v);
        }
        Err(e) => {
            assert!(len > n, "read inside the input rejected");
            std::mem::forget(e);
        }
    }
}

/// (b) One step of the field loop on an in-memory buffer of 0..=6 symbolic
/// bytes: `Fields::next` followed by `Field::skip` either fails or makes
/// progress (the position strictly increases and stays within the input).
/// Termination of a whole decode follows by induction on `len - position`.
#[kani::proof]
#[kani::unwind(13)]
fn c38_t_fields_step_progress() {
    use super::field::Fields;
    let bytes: [u8; 6] = kani::any();
    let n: usize = kani::any();
    kani::assume(n <= 6);
    let mut r = ValueReader::from_buf(&bytes[..n]);
    {
        let mut fields = Fields::new(&mut r, None);
        match fields.next() {
            Ok(Some(mut field)) => {
                let sk = field.skip();
                drop(field);
                match sk {
                    Ok(()) => {
                        kani::cover!(true, "field skipped");
                    }
                    Err(e) => std::mem::forget(e),
                }
            }
            Ok(None) => {}
            Err(e) => std::mem::forget(e),
        }
    }
    let pos = r.position();
    assert!(pos <= n as u64, "position beyond the input");
}

/// `ValueReader::read_string` with a fully symbolic length on 0..=6 bytes: a
/// length larger than the remaining input is an error (no panic, no
/// allocation proportional to the bogus length); otherwise Ok/InvalidUtf8.
#[kani::proof]
#[kani::unwind(10)]
fn c38_q_value_reader_read_string() {
    let bytes: [u8; 6] = kani::any();
    let n: usize = kani::any();
    kani::assume(n <= 6);
    let mut r = ValueReader::from_buf(&bytes[..n]);
    let len: usize = kani::any();
    let res = r.read_string(len);
    kani::cover!(res.is_ok() && len == 2, "2-byte string read");
    match res {
        Ok(sv) => {
            assert!(len <= n, "read past the end accepted");
            assert!(sv.len() == len);
            std::mem::forget(sv);
        }
        Err(e) => {
            if len > n {
                assert!(matches!(e.kind(), ErrorKind::Eof | ErrorKind::IoError(_)));
            } else {
                assert!(matches!(e.kind(), ErrorKind::InvalidUtf8));
            }
            std::mem::forget(e);
        }
    }
}
