//! Kani harnesses for `rten_onnx::protobuf` (property C38; shared with C05).
//!
//! Termination is decided by CBMC's unwinding assertions: each harness's
//! `#[kani::unwind(n)]` is derived from the documented bound of the loop it
//! drives (a varint has at most 10 bytes, so 12 iterations of the refill loop
//! over an 11-byte buffer is more than any terminating run can take).
use super::errors::{ErrorKind, ProtobufError};
use super::value::{FieldTypes, LimitReader, OwnedValues, ReadValue, ValueReader};
use super::varint::{read_varint, VarintError};
use std::io::Cursor;

/// Reference varint decoder (protobuf spec): little-endian base-128, at most
/// 10 bytes, the 10th byte may only contribute one bit.
fn ref_varint(bytes: &[u8]) -> Option<(u64, usize)> {
    let mut value: u64 = 0;
    let mut i = 0;
    while i < 10 {
        if i >= bytes.len() {
            return None;
        }
        let b = bytes[i];
        if i == 9 && b > 1 {
            return None;
        }
        value |= ((b & 0x7f) as u64) << (7 * i);
        if b < 0x80 {
            return Some((value, i + 1));
        }
        i += 1;
    }
    None
}

/// (a) `read_varint` over every buffer of 0..=11 bytes: terminates within the
/// unwinding bound, agrees with the reference decoder, and consumes exactly
/// the bytes of the varint it decoded.
#[kani::proof]
#[kani::unwind(13)]
fn c38_q_read_varint_le_11_bytes() {
    let bytes: [u8; 11] = kani::any();
    let len: usize = kani::any();
    kani::assume(len <= 11);
    let mut cur = Cursor::new(&bytes[..len]);
    let r = read_varint(&mut cur);
    let expect = ref_varint(&bytes[..len]);
    kani::cover!(matches!(expect, Some((_, 10))), "10-byte varint reachable");
    match r {
        Ok(v) => {
            let (ev, n) = expect.unwrap();
            assert!(v == ev, "varint value differs from the reference");
            assert!(cur.position() == n as u64, "varint consumed the wrong number of bytes");
        }
        // `Eof` is also what a varint cut off by the end of the input gives
        // (documented for InvalidVarint, but either is an error, which is all
        // the property asks for): no complete varint may exist in that case.
        Err(VarintError::Eof) => assert!(expect.is_none()),
        Err(VarintError::InvalidVarint) => assert!(expect.is_none()),
        Err(VarintError::IoError(_)) => assert!(false, "Cursor cannot fail"),
    }
    assert!(cur.position() <= len as u64);
}

/// (a') same through a reader whose buffer holds one byte at a time (the
/// refill path of a `BufReader`), 0..=11 bytes.
struct OneByte<'a> {
    buf: &'a [u8],
    pos: usize,
}
impl std::io::Read for OneByte<'_> {
    fn read(&mut self, _: &mut [u8]) -> std::io::Result<usize> {
        Ok(0)
    }
}
impl std::io::BufRead for OneByte<'_> {
    fn fill_buf(&mut self) -> std::io::Result<&[u8]> {
        let end = (self.pos + 1).min(self.buf.len());
        Ok(&self.buf[self.pos..end])
    }
    fn consume(&mut self, n: usize) {
        self.pos += n;
    }
}
/// (a'') a reader that refills four bytes at a time, 0..=12 bytes: the 10-byte
/// limit has to hold across refills whose size does not divide 10.
struct FourBytes<'a> {
    buf: &'a [u8],
    pos: usize,
}
impl std::io::Read for FourBytes<'_> {
    fn read(&mut self, _: &mut [u8]) -> std::io::Result<usize> {
        Ok(0)
    }
}
impl std::io::BufRead for FourBytes<'_> {
    fn fill_buf(&mut self) -> std::io::Result<&[u8]> {
        let end = (self.pos + 4).min(self.buf.len());
        Ok(&self.buf[self.pos..end])
    }
    fn consume(&mut self, n: usize) {
        self.pos += n;
    }
}
#[kani::proof]
#[kani::unwind(14)]
fn c38_q_read_varint_refill4_le_12_bytes() {
    let bytes: [u8; 12] = kani::any();
    let len: usize = kani::any();
    kani::assume(len <= 12);
    let mut src = FourBytes { buf: &bytes[..len], pos: 0 };
    let r = read_varint(&mut src);
    let expect = ref_varint(&bytes[..len]);
    kani::cover!(matches!(expect, Some((_, 10))), "10-byte varint reachable");
    match r {
        Ok(v) => {
            let (ev, n) = expect.unwrap();
            assert!(v == ev, "varint value differs from the reference");
            assert!(src.pos == n, "varint consumed the wrong number of bytes");
        }
        Err(VarintError::Eof) => assert!(expect.is_none()),
        Err(VarintError::InvalidVarint) => assert!(expect.is_none()),
        Err(VarintError::IoError(_)) => assert!(false),
    }
    assert!(src.pos <= len);
}

#[kani::proof]
#[kani::unwind(13)]
fn c38_q_read_varint_refill_le_11_bytes() {
    let bytes: [u8; 11] = kani::any();
    let len: usize = kani::any();
    kani::assume(len <= 11);
    let mut src = OneByte { buf: &bytes[..len], pos: 0 };
    let r = read_varint(&mut src);
    let expect = ref_varint(&bytes[..len]);
    kani::cover!(matches!(expect, Some((_, 10))), "10-byte varint reachable");
    match r {
        Ok(v) => {
            let (ev, n) = expect.unwrap();
            assert!(v == ev);
            assert!(src.pos == n);
        }
        Err(VarintError::Eof) => assert!(expect.is_none()),
        Err(VarintError::InvalidVarint) => assert!(expect.is_none()),
        Err(VarintError::IoError(_)) => assert!(false),
    }
    assert!(src.pos <= len);
}

/// Environment stub for the LimitReader arithmetic: a `ReadValue` whose
/// position is an arbitrary u64 and whose reads succeed without touching any
/// data; it records the lengths it is asked for.
struct ModelReader {
    pos: u64,
    last_len: Option<usize>,
    /// Set when a read was let through whose end is not a representable
    /// stream position (LimitReader must have rejected it).
    overflow: bool,
}
impl ModelReader {
    fn advance(&mut self, n: u64) {
        match self.pos.checked_add(n) {
            Some(p) => self.pos = p,
            None => {
                self.overflow = true;
                self.pos = u64::MAX;
            }
        }
    }
}
impl ReadValue for ModelReader {
    type Types = OwnedValues;
    fn read_i32(&mut self) -> Result<i32, ProtobufError> {
        self.last_len = Some(4);
        self.advance(4);
        Ok(0)
    }
    fn read_i64(&mut self) -> Result<i64, ProtobufError> {
        self.last_len = Some(8);
        self.advance(8);
        Ok(0)
    }
    fn read_varint(&mut self) -> Result<u64, ProtobufError> {
        // A varint occupies 1..=10 bytes; LimitReader only checks for one.
        let n: u64 = kani::any();
        kani::assume(n >= 1 && n <= 10);
        self.last_len = Some(n as usize);
        self.advance(n);
        Ok(kani::any())
    }
    fn read_bytes(&mut self, len: usize) -> Result<<Self::Types as FieldTypes>::Bytes, ProtobufError> {
        self.last_len = Some(len);
        self.advance(len as u64);
        Ok(Vec::new())
    }
    fn read_string(&mut self, len: usize) -> Result<<Self::Types as FieldTypes>::String, ProtobufError> {
        self.last_len = Some(len);
        self.advance(len as u64);
        Ok(String::new())
    }
    fn skip(&mut self, len: usize) -> Result<(), ProtobufError> {
        self.last_len = Some(len);
        self.advance(len as u64);
        Ok(())
    }
    fn position(&self) -> u64 {
        self.pos
    }
}

/// (c) LimitReader: for any position, any field length and any requested read
/// length (all full-width u64), no arithmetic overflows, and a read is passed
/// to the underlying reader only if `position + len` (exact) is within the
/// field: "field lengths larger than the remaining input are errors".
#[kani::proof]
#[kani::unwind(3)]
fn c38_q_limit_reader_arith() {
    let pos: u64 = kani::any();
    let field_len: u64 = kani::any();
    let req: usize = kani::any();
    // Leave room for one tag varint so that the stub itself cannot overflow.
    kani::assume(pos <= u64::MAX - 16);
    let mut inner = ModelReader { pos, last_len: None, overflow: false };
    // Top-level readers start at position 0 with limit u64::MAX; nested ones
    // are made with sub_limit at an arbitrary position.
    let top_limit: u64 = kani::any();
    kani::assume(pos as u128 + top_limit as u128 <= u64::MAX as u128);
    let mut top = LimitReader::new(&mut inner, top_limit);
    // Optionally read a tag varint first: it may be longer than what is left
    // of the enclosing message, leaving the position *past* the limit (the
    // reader only checks that one byte is available).
    let tag_first: bool = kani::any();
    if tag_first {
        match top.read_varint() {
            Ok(_) => {}
            Err(e) => {
                std::mem::forget(e);
                return;
            }
        }
    }
    let pos = top.position();
    kani::cover!(tag_first && pos > 5, "position advanced by a multi-byte tag");
    let mut sub = top.sub_limit(field_len);
    let which: u8 = kani::any();
    let ok = match which {
        0 => sub.read_bytes(req).is_ok(),
        1 => sub.skip(req).is_ok(),
        2 => sub.read_string(req).is_ok(),
        _ => sub.read_i64().is_ok(),
    };
    let req_eff: u128 = if which <= 2 { req as u128 } else { 8 };
    kani::cover!(ok, "accepted read");
    kani::cover!(!ok, "rejected read");
    if ok {
        assert!(
            pos as u128 + req_eff <= pos as u128 + field_len as u128,
            "read beyond the end of the field was accepted"
        );
    } else {
        // Rejected: either the read does not fit in the field, or the end of
        // the read is not representable as a stream position at all.
        assert!(
            req_eff > field_len as u128 || pos as u128 + req_eff > u64::MAX as u128,
            "read inside the field was rejected"
        );
    }
    assert!(!inner.overflow, "a read whose end overflows the stream position was let through");
}

/// (c') `ValueReader::skip` / `read_bytes` on an in-memory buffer with a fully
/// symbolic length: Ok => the position advanced by exactly `len` and did not
/// pass the end of the input; a length larger than the remaining input is an
/// error; the position never moves backwards.
#[kani::proof]
#[kani::unwind(10)]
fn c38_q_value_reader_skip() {
    let bytes: [u8; 8] = kani::any();
    let n: usize = kani::any();
    kani::assume(n <= 8);
    let mut r = ValueReader::from_buf(&bytes[..n]);
    let pre: usize = kani::any();
    kani::assume(pre <= n);
    match r.skip(pre) {
        Ok(()) => {}
        Err(e) => {
            std::mem::forget(e);
            assert!(false, "skip inside the input rejected");
        }
    }
    assert!(r.position() == pre as u64);
    let len: usize = kani::any();
    let res = r.skip(len);
    kani::cover!(res.is_ok() && len > 0, "non-trivial skip accepted");
    kani::cover!(res.is_err(), "skip rejected");
    match res {
        Ok(()) => {
            assert!(len <= n - pre, "skip past the end of the input accepted");
            assert!(r.position() == (pre + len) as u64);
        }
        Err(e) => {
            assert!(len > n - pre, "skip inside the input rejected");
            assert!(r.position() >= pre as u64, "position moved backwards");
            std::mem::forget(e);
        }
    }
}

#[kani::proof]
#[kani::unwind(10)]
fn c38_q_value_reader_read_bytes() {
    let bytes: [u8; 8] = kani::any();
    let n: usize = kani::any();
    kani::assume(n <= 8);
    let mut r = ValueReader::from_buf(&bytes[..n]);
    let len: usize = kani::any();
    let res = r.read_bytes(len);
    kani::cover!(res.is_ok() && len == 3, "3 bytes read");
    match res {
        Ok(v) => {
            assert!(len <= n, "read past the end accepted");
            assert!(v.len() == len);
            assert!(r.position() == len as u64);
            std::mem::forget(v);
        }
        Err(e) => {
            assert!(len > n, "read inside the input rejected");
            std::mem::forget(e);
        }
    }
}

/// (b) One step of the field loop on an in-memory buffer of 0..=6 symbolic
/// bytes: `Fields::next` followed by `Field::skip` either fails or makes
/// progress (the position strictly increases and stays within the input).
/// Termination of a whole decode follows by induction on `len - position`.
#[kani::proof]
#[kani::unwind(13)]
fn c38_t_fields_step_progress() {
    use super::field::Fields;
    let bytes: [u8; 6] = kani::any();
    let n: usize = kani::any();
    kani::assume(n <= 6);
    let mut r = ValueReader::from_buf(&bytes[..n]);
    {
        let mut fields = Fields::new(&mut r, None);
        match fields.next() {
            Ok(Some(mut field)) => {
                let sk = field.skip();
                drop(field);
                match sk {
                    Ok(()) => {
                        kani::cover!(true, "field skipped");
                    }
                    Err(e) => std::mem::forget(e),
                }
            }
            Ok(None) => {}
            Err(e) => std::mem::forget(e),
        }
    }
    let pos = r.position();
    assert!(pos <= n as u64, "position beyond the input");
}

/// `ValueReader::read_string`: (a) a symbolic length larger than the input is an
/// error without any allocation; (b) for a concrete in-range length (UTF-8
/// validation over a symbolic-*length* buffer exhausts CBMC's memory) the
/// result is the input prefix or InvalidUtf8.
macro_rules! read_string_too_long {
    ($name:ident, $len:expr) => {
        /// Declared string length (concrete; a symbolic one makes CBMC encode
        /// UTF-8 validation over a symbolic-size buffer and run out of memory)
        /// larger than the 3 symbolic input bytes: an error, no panic.
        #[kani::proof]
        #[kani::unwind(10)]
        fn $name() {
            let bytes: [u8; 3] = kani::any();
            let mut r = ValueReader::from_buf(&bytes[..]);
            match r.read_string($len) {
                Ok(sv) => {
                    std::mem::forget(sv);
                    assert!(false, "string longer than the remaining input was accepted");
                }
                Err(e) => {
                    kani::cover!(true, "rejected");
                    assert!(matches!(e.kind(), ErrorKind::Eof | ErrorKind::IoError(_)));
                    std::mem::forget(e);
                }
            }
        }
    };
}
read_string_too_long!(c38_q_value_reader_read_string_len_4, 4);
read_string_too_long!(c38_q_value_reader_read_string_len_2p63, 1usize << 63);
read_string_too_long!(c38_t_value_reader_read_string_len_2p40, 1usize << 40);
read_string_too_long!(c38_t_value_reader_read_string_len_max, usize::MAX);

#[kani::proof]
#[kani::unwind(10)]
fn c38_q_value_reader_read_string_in_range() {
    let bytes: [u8; 3] = kani::any();
    let mut r = ValueReader::from_buf(&bytes[..]);
    let (b0, b1) = (bytes[0], bytes[1]);
    // Two bytes are valid UTF-8 iff both are ASCII or they form one 2-byte sequence.
    let valid = (b0 < 0x80 && b1 < 0x80) || (b0 >= 0xc2 && b0 <= 0xdf && b1 >= 0x80 && b1 <= 0xbf);
    match r.read_string(2) {
        Ok(sv) => {
            kani::cover!(b0 >= 0x80, "2-byte sequence read");
            assert!(valid, "invalid UTF-8 accepted");
            assert!(sv.len() == 2);
            assert!(sv.as_bytes()[0] == b0 && sv.as_bytes()[1] == b1);
            assert!(r.position() == 2);
            std::mem::forget(sv);
        }
        Err(e) => {
            assert!(matches!(e.kind(), ErrorKind::InvalidUtf8));
            assert!(!valid, "valid UTF-8 rejected");
            std::mem::forget(e);
        }
    }
}

/// A bytes field whose declared length exceeds the remaining input (any length
/// up to usize::MAX) is an error: no panic, and the reader must not allocate
/// the bogus length (CBMC flags capacity overflow). Narrow variant of
/// `c38_q_value_reader_read_bytes` that only looks at the bad-length region.
#[kani::proof]
#[kani::unwind(10)]
fn c38_q_value_reader_length_beyond_input() {
    let bytes: [u8; 4] = kani::any();
    let n: usize = kani::any();
    kani::assume(n <= 4);
    let len: usize = kani::any();
    kani::assume(len > n);
    let mut r = ValueReader::from_buf(&bytes[..n]);
    let failed = match r.read_bytes(len) {
        Ok(b) => {
            std::mem::forget(b);
            false
        }
        Err(e) => {
            std::mem::forget(e);
            true
        }
    };
    kani::cover!(len > (1 << 62), "huge length");
    assert!(failed, "field longer than the remaining input was accepted");
}

// (A harness for one step into an *embedded* message -- Fields::next, read_message, nested
// Fields::next, Field::skip on <= 5 bytes -- got no verdict within 36 GB; dropped.)

/// The file path wraps its reader in `ReadPos` (position tracking for readers
/// that cannot report their position): after a skip followed by one more
/// primitive operation on `ValueReader<ReadPos<Cursor<..>>>` the reported
/// position is the number of bytes actually consumed, and lengths are
/// validated exactly as for buffers.
#[kani::proof]
#[kani::unwind(10)]
fn c38_q_readpos_skip_then_read() {
    use super::value::ReadPos;
    let bytes: [u8; 6] = kani::any();
    let n: usize = kani::any();
    kani::assume(n <= 6);
    let mut r = ValueReader::new(ReadPos::new(Cursor::new(&bytes[..n])));
    assert!(r.position() == 0);
    let pre: usize = kani::any();
    kani::assume(pre <= n);
    match r.skip(pre) {
        Ok(()) => {}
        Err(e) => {
            std::mem::forget(e);
            assert!(false, "skip inside the input rejected");
        }
    }
    assert!(r.position() == pre as u64, "ReadPos position wrong after skip");
    let k: usize = kani::any();
    let as_bytes: bool = kani::any();
    let ok = if as_bytes {
        match r.read_bytes(k) {
            Ok(b) => {
                assert!(b.len() == k);
                std::mem::forget(b);
                true
            }
            Err(e) => {
                std::mem::forget(e);
                false
            }
        }
    } else {
        match r.skip(k) {
            Ok(()) => true,
            Err(e) => {
                std::mem::forget(e);
                false
            }
        }
    };
    kani::cover!(ok && k == 2 && pre == 3, "two bytes after three");
    assert!(ok == (k <= n - pre), "length validation differs from the remaining input");
    if ok {
        assert!(r.position() == (pre + k) as u64, "ReadPos position differs from the bytes consumed");
    }
}

/// read_varint through `ReadPos` after a symbolic skip: value, consumed length
/// and reported position agree with the reference decoder.
#[kani::proof]
#[kani::unwind(13)]
fn c38_t_readpos_varint_after_skip() {
    use super::value::ReadPos;
    let bytes: [u8; 6] = kani::any();
    let n: usize = kani::any();
    kani::assume(n <= 6);
    let mut r = ValueReader::new(ReadPos::new(Cursor::new(&bytes[..n])));
    let pre: usize = kani::any();
    kani::assume(pre <= n);
    match r.skip(pre) {
        Ok(()) => {}
        Err(e) => std::mem::forget(e),
    }
    let rest = &bytes[pre..n];
    match r.read_varint() {
        Ok(v) => {
            let (ev, len) = ref_varint(rest).unwrap();
            kani::cover!(len == 2, "two-byte varint");
            assert!(v == ev);
            assert!(r.position() == (pre + len) as u64, "ReadPos position differs from the bytes consumed");
        }
        Err(e) => {
            assert!(ref_varint(rest).is_none());
            std::mem::forget(e);
        }
    }
}

/// Model of a `BufReader` over a seekable source whose internal buffer holds
/// `chunk` bytes: `fill_buf` exposes only what is left of the current
/// chunk-aligned window, so a multi-byte value can straddle a refill (the
/// situation of `BufReader<File>` at every 8 KiB boundary, which `Cursor`
/// never shows). `read` behaves like `BufReader::read` (serves what is
/// buffered, at most the request).
struct Chunked<'a> {
    buf: &'a [u8],
    pos: usize,
    chunk: usize,
}
impl Chunked<'_> {
    fn window_end(&self) -> usize {
        let end = (self.pos / self.chunk + 1) * self.chunk;
        if end < self.buf.len() { end } else { self.buf.len() }
    }
}
impl std::io::Read for Chunked<'_> {
    fn read(&mut self, out: &mut [u8]) -> std::io::Result<usize> {
        if self.pos >= self.buf.len() {
            return Ok(0);
        }
        let avail = self.window_end() - self.pos;
        let n = if out.len() < avail { out.len() } else { avail };
        let mut i = 0;
        while i < n {
            out[i] = self.buf[self.pos + i];
            i += 1;
        }
        self.pos += n;
        Ok(n)
    }
}
impl std::io::BufRead for Chunked<'_> {
    fn fill_buf(&mut self) -> std::io::Result<&[u8]> {
        if self.pos >= self.buf.len() {
            return Ok(&[]);
        }
        Ok(&self.buf[self.pos..self.window_end()])
    }
    fn consume(&mut self, n: usize) {
        self.pos += n;
    }
}
impl std::io::Seek for Chunked<'_> {
    fn seek(&mut self, to: std::io::SeekFrom) -> std::io::Result<u64> {
        match to {
            std::io::SeekFrom::Start(p) => self.pos = p as usize,
            std::io::SeekFrom::End(d) => self.pos = (self.buf.len() as i64 + d) as usize,
            std::io::SeekFrom::Current(d) => self.pos = (self.pos as i64 + d) as usize,
        }
        Ok(self.pos as u64)
    }
}
impl super::value::Position for Chunked<'_> {
    fn position(&self) -> u64 {
        self.pos as u64
    }
}

/// Fixed-width reads (`read_i32` / `read_i64`, wire types 5 and 1) through a
/// reader that refills three bytes at a time, after a symbolic skip, over
/// 0..=11 symbolic bytes: the value is the little-endian decoding of the next
/// 4 / 8 bytes wherever the refill boundaries fall, too few remaining bytes is
/// an error, and nothing panics or reads outside the buffer.
macro_rules! read_fixed_chunked {
    ($name:ident, $ty:ty, $width:expr, $read:ident) => {
        #[kani::proof]
        #[kani::unwind(14)]
        fn $name() {
            let bytes: [u8; 11] = kani::any();
            let n: usize = kani::any();
            kani::assume(n <= 11);
            let mut r = ValueReader::new(Chunked { buf: &bytes[..n], pos: 0, chunk: 3 });
            let pre: usize = kani::any();
            kani::assume(pre <= 3 && pre <= n);
            match r.skip(pre) {
                Ok(()) => {}
                Err(e) => std::mem::forget(e),
            }
            match r.$read() {
                Ok(v) => {
                    kani::cover!(pre == 1, "value straddles refills");
                    assert!(n - pre >= $width, "fixed-width value read from too few bytes");
                    let mut le = [0u8; $width];
                    let mut i = 0;
                    while i < $width {
                        le[i] = bytes[pre + i];
                        i += 1;
                    }
                    assert!(v == <$ty>::from_le_bytes(le), "fixed-width value differs from its little-endian bytes");
                    assert!(r.position() == (pre + $width) as u64);
                }
                Err(e) => {
                    assert!(n - pre < $width, "fixed-width value rejected although enough bytes remain");
                    std::mem::forget(e);
                }
            }
        }
    };
}
read_fixed_chunked!(c38_q_read_i32_refill3, i32, 4, read_i32);
read_fixed_chunked!(c38_q_read_i64_refill3, i64, 8, read_i64);

/// A length-delimited read (`read_bytes`, concrete length 5: a symbolic `Vec`
/// length is what exhausts CBMC) through the same 3-byte-refill reader after a
/// symbolic skip: the bytes returned are the next five input bytes across the
/// refill boundaries, and too few remaining bytes is an error.
#[kani::proof]
#[kani::unwind(12)]
fn c38_q_read_bytes_refill3() {
    let bytes: [u8; 9] = kani::any();
    let n: usize = kani::any();
    kani::assume(n <= 9);
    let mut r = ValueReader::new(Chunked { buf: &bytes[..n], pos: 0, chunk: 3 });
    let pre: usize = kani::any();
    kani::assume(pre <= 3 && pre <= n);
    match r.skip(pre) {
        Ok(()) => {}
        Err(e) => std::mem::forget(e),
    }
    match r.read_bytes(5) {
        Ok(b) => {
            kani::cover!(pre == 2, "field straddles two refills");
            assert!(n - pre >= 5, "bytes field read from too few bytes");
            assert!(b.len() == 5);
            let mut i = 0;
            while i < 5 {
                assert!(b[i] == bytes[pre + i], "bytes field differs from the input");
                i += 1;
            }
            assert!(r.position() == (pre + 5) as u64);
            std::mem::forget(b);
        }
        Err(e) => {
            assert!(n - pre < 5, "bytes field rejected although enough bytes remain");
            std::mem::forget(e);
        }
    }
}
