//! Kani harnesses for `rten_tensor::overlap` (property C08).
//!
//! Compiled into the crate through the `#[cfg(kani)] #[path] mod verif_kani;`
//! hook at the end of overlap.rs.
//!
//! Every harness fixes the *shape* to a compile-time constant (a symbolic
//! shape multiplied by symbolic strides is the one pattern CBMC does not
//! finish, see DESIGN.md) and lets the solver quantify over all 64-bit
//! strides and all pairs of valid indices.
use super::*;
use crate::layout::{MutLayout, NdLayout, OverlapPolicy};

/// `i * s` for a small concrete-bounded `i`, as a case split so that CBMC sees
/// only multiplications by constants. Exact (u128, cannot overflow for i < 8).
#[inline(always)]
fn mul_small(i: usize, s: usize) -> u128 {
    let s = s as u128;
    match i {
        0 => 0,
        1 => s,
        2 => 2 * s,
        3 => 3 * s,
        4 => 4 * s,
        5 => 5 * s,
        6 => 6 * s,
        _ => 7 * s,
    }
}

/// Soundness: whenever the layout constructor with `DisallowOverlap` accepts
/// (shape, strides), two distinct valid indices have distinct *exact* offsets,
/// and the largest exact offset fits in `usize` (otherwise the machine offset
/// wraps and aliases a smaller one).
macro_rules! overlap_sound {
    ($name:ident, $n:literal, [$($s:expr),*]) => {
        #[kani::proof]
        #[kani::unwind(10)]
        fn $name() {
            let shape: [usize; $n] = [$($s),*];
            let strides: [usize; $n] = kani::any();
            let accepted =
                NdLayout::<$n>::from_shape_and_strides(shape, strides, OverlapPolicy::DisallowOverlap)
                    .is_ok();
            // The accept branch must be reachable for any shape (contiguous strides are accepted).
            kani::cover!(accepted, "accepting strides exist");
            if accepted {
                let i: [usize; $n] = kani::any();
                let j: [usize; $n] = kani::any();
                let mut differ = false;
                let mut oi: u128 = 0;
                let mut oj: u128 = 0;
                let mut max_off: u128 = 0;
                let mut k = 0;
                while k < $n {
                    kani::assume(i[k] < shape[k]);
                    kani::assume(j[k] < shape[k]);
                    differ |= i[k] != j[k];
                    oi += mul_small(i[k], strides[k]);
                    oj += mul_small(j[k], strides[k]);
                    max_off += mul_small(shape[k] - 1, strides[k]);
                    k += 1;
                }
                kani::assume(differ);
                assert!(oi != oj, "accepted layout maps two indices to one offset");
                assert!(max_off <= usize::MAX as u128, "accepted layout has an offset that wraps");
            }
        }
    };
}

// Rank 1
overlap_sound!(c08_q_sound_1d_2, 1, [2]);
overlap_sound!(c08_q_sound_1d_4, 1, [4]);
// Rank 2 (sizes 1..4; size-0 shapes have no valid index pairs and are in the
// completeness family below)
overlap_sound!(c08_q_sound_2d_1x2, 2, [1, 2]);
overlap_sound!(c08_q_sound_2d_2x1, 2, [2, 1]);
overlap_sound!(c08_q_sound_2d_2x2, 2, [2, 2]);
overlap_sound!(c08_q_sound_2d_2x3, 2, [2, 3]);
overlap_sound!(c08_q_sound_2d_3x2, 2, [3, 2]);
overlap_sound!(c08_q_sound_2d_3x3, 2, [3, 3]);
overlap_sound!(c08_q_sound_2d_4x4, 2, [4, 4]);
overlap_sound!(c08_t_sound_2d_2x4, 2, [2, 4]);
overlap_sound!(c08_t_sound_2d_4x2, 2, [4, 2]);
overlap_sound!(c08_t_sound_2d_3x4, 2, [3, 4]);
overlap_sound!(c08_t_sound_2d_4x3, 2, [4, 3]);
overlap_sound!(c08_t_sound_2d_1x4, 2, [1, 4]);
// Rank 3
overlap_sound!(c08_q_sound_3d_2x2x2, 3, [2, 2, 2]);
overlap_sound!(c08_q_sound_3d_2x1x3, 3, [2, 1, 3]);
overlap_sound!(c08_q_sound_3d_3x2x2, 3, [3, 2, 2]);
overlap_sound!(c08_q_sound_3d_2x3x4, 3, [2, 3, 4]);
overlap_sound!(c08_t_sound_3d_3x3x3, 3, [3, 3, 3]);
overlap_sound!(c08_t_sound_3d_1x2x1, 3, [1, 2, 1]);
overlap_sound!(c08_t_sound_3d_4x1x2, 3, [4, 1, 2]);
// Rank 4
overlap_sound!(c08_t_sound_4d_2x2x2x2, 4, [2, 2, 2, 2]);
overlap_sound!(c08_t_sound_4d_2x3x1x2, 4, [2, 3, 1, 2]);

/// Soundness for *huge* concrete shapes (element counts around and beyond
/// 2^64, where the size products inside the check themselves overflow): the
/// indices compared are the corner indices {0, 1, size-2, size-1} of every
/// axis (symbolic choice per axis), so that every multiplication is by a
/// constant. Accepted => corner offsets are pairwise distinct (exact u128
/// arithmetic) and the largest offset fits in usize.
#[inline(always)]
fn corner(choice: u8, size: usize) -> usize {
    match choice {
        0 => 0,
        1 => {
            if size > 1 {
                1
            } else {
                0
            }
        }
        2 => size.saturating_sub(2),
        _ => size - 1,
    }
}
#[inline(always)]
fn corner_mul(choice: u8, size: usize, stride: usize) -> u128 {
    // `corner(choice, size)` is a constant per match arm.
    let s = stride as u128;
    match choice {
        0 => 0,
        1 => {
            if size > 1 {
                s
            } else {
                0
            }
        }
        2 => (size.saturating_sub(2) as u128) * s,
        _ => ((size - 1) as u128) * s,
    }
}
macro_rules! overlap_sound_huge {
    ($name:ident, $n:literal, [$($s:expr),*], $accept_exists:expr) => {
        #[kani::proof]
        #[kani::unwind(10)]
        fn $name() {
            let shape: [usize; $n] = [$($s),*];
            let strides: [usize; $n] = kani::any();
            let accepted =
                NdLayout::<$n>::from_shape_and_strides(shape, strides, OverlapPolicy::DisallowOverlap)
                    .is_ok();
            // For some huge shapes no stride vector can be accepted at all (every
            // non-overlapping layout needs an offset >= 2^64): then rejecting
            // everything is the correct behaviour and the witness says so.
            kani::cover!(accepted == $accept_exists, "expected acceptance outcome reachable");
            kani::cover!(!accepted, "rejecting strides exist");
            if accepted {
                let ci: [u8; $n] = kani::any();
                let cj: [u8; $n] = kani::any();
                let mut differ = false;
                let mut oi: u128 = 0;
                let mut oj: u128 = 0;
                let mut max_off: u128 = 0;
                let mut k = 0;
                while k < $n {
                    kani::assume(ci[k] < 4 && cj[k] < 4);
                    differ |= corner(ci[k], shape[k]) != corner(cj[k], shape[k]);
                    oi += corner_mul(ci[k], shape[k], strides[k]);
                    oj += corner_mul(cj[k], shape[k], strides[k]);
                    max_off += corner_mul(3, shape[k], strides[k]);
                    k += 1;
                }
                kani::assume(differ);
                assert!(oi != oj, "accepted layout maps two indices to one offset");
                assert!(max_off <= usize::MAX as u128, "accepted layout has an offset that wraps");
            }
        }
    };
}
overlap_sound_huge!(c08_q_sound_huge_2x2p63x2, 3, [2, 1 << 63, 2], false);
overlap_sound_huge!(c08_q_sound_huge_2p32x2p32, 2, [1 << 32, 1 << 32], true);
overlap_sound_huge!(c08_q_sound_huge_3x2p62, 2, [3, 1 << 62], true);
overlap_sound_huge!(c08_q_sound_huge_max, 1, [usize::MAX], true);
overlap_sound_huge!(c08_t_sound_huge_2p63x2, 2, [1 << 63, 2], true);
overlap_sound_huge!(c08_t_sound_huge_2p21x2p21x2p22, 3, [1 << 21, 1 << 21, 1 << 22], true);
overlap_sound_huge!(c08_t_sound_huge_2x1x2p63, 3, [2, 1, 1 << 63], true);

/// Empty shapes: never reported as overlapping (there are no valid indices),
/// and the check must not panic whatever the strides.
macro_rules! overlap_empty {
    ($name:ident, $n:literal, [$($s:expr),*]) => {
        #[kani::proof]
        #[kani::unwind(10)]
        fn $name() {
            let shape: [usize; $n] = [$($s),*];
            let strides: [usize; $n] = kani::any();
            let r = may_have_internal_overlap(shape, strides);
            kani::cover!(true, "reached");
            assert!(!r);
        }
    };
}
overlap_empty!(c08_q_empty_1d, 1, [0]);
overlap_empty!(c08_q_empty_2d_0x3, 2, [0, 3]);
overlap_empty!(c08_q_empty_3d_2x0x4, 3, [2, 0, 4]);

/// Completeness: a layout obtained from a contiguous layout of concrete shape
/// `$full` by taking, along every axis, `$child[k]` elements with a symbolic
/// positive step (any step for which the window fits inside the parent axis),
/// and then permuting the axes by *every* permutation of the rank, is always
/// accepted. Parent and child shapes are concrete (case split, printed in the
/// evidence); the steps are what the solver quantifies over.
const PERMS1: [[usize; 1]; 1] = [[0]];
const PERMS2: [[usize; 2]; 2] = [[0, 1], [1, 0]];
const P012: [[usize; 3]; 1] = [[0, 1, 2]];
const P021: [[usize; 3]; 1] = [[0, 2, 1]];
const P102: [[usize; 3]; 1] = [[1, 0, 2]];
const P120: [[usize; 3]; 1] = [[1, 2, 0]];
const P201: [[usize; 3]; 1] = [[2, 0, 1]];
const P210: [[usize; 3]; 1] = [[2, 1, 0]];
macro_rules! overlap_complete {
    ($name:ident, $n:literal, $perms:ident, [$($f:expr),*], [$($c:expr),*]) => {
        #[kani::proof]
        #[kani::unwind(10)]
        fn $name() {
            let full: [usize; $n] = [$($f),*];
            let shape: [usize; $n] = [$($c),*];
            // Contiguous strides of the parent (concrete).
            let mut pstr = [0usize; $n];
            let mut acc = 1usize;
            let mut k = $n;
            while k > 0 {
                k -= 1;
                pstr[k] = acc;
                acc *= full[k];
            }
            // Symbolic positive step per axis such that the window fits.
            let mut strides = [0usize; $n];
            let mut k = 0;
            while k < $n {
                let step: usize = kani::any();
                kani::assume(step >= 1 && step <= 7);
                if shape[k] > 0 {
                    kani::assume(mul_small(step, shape[k] - 1) < full[k] as u128);
                }
                strides[k] = mul_small(step, pstr[k]) as usize;
                k += 1;
            }
            let mut any_stepped = false;
            let mut k = 0;
            while k < $n {
                any_stepped |= strides[k] > pstr[k];
                k += 1;
            }
            kani::cover!(any_stepped, "an axis with step > 1 is reachable");
            for perm in $perms {
                let mut pshape = [0usize; $n];
                let mut pstrides = [0usize; $n];
                let mut k = 0;
                while k < $n {
                    pshape[k] = shape[perm[k]];
                    pstrides[k] = strides[perm[k]];
                    k += 1;
                }
                assert!(
                    NdLayout::<$n>::from_shape_and_strides(
                        pshape,
                        pstrides,
                        OverlapPolicy::DisallowOverlap
                    )
                    .is_ok(),
                    "sliced+permuted contiguous layout rejected"
                );
            }
        }
    };
}
overlap_complete!(c08_q_complete_1d_7_3, 1, PERMS1, [7], [3]);
overlap_complete!(c08_q_complete_2d_4x7_2x3, 2, PERMS2, [4, 7], [2, 3]);
overlap_complete!(c08_q_complete_2d_4x4_4x2, 2, PERMS2, [4, 4], [4, 2]);
overlap_complete!(c08_q_complete_2d_5x5_1x3, 2, PERMS2, [5, 5], [1, 3]);
overlap_complete!(c08_q_complete_3d_3x4x5_2x2x3_p012, 3, P012, [3, 4, 5], [2, 2, 3]);
overlap_complete!(c08_q_complete_3d_3x4x5_2x2x3_p021, 3, P021, [3, 4, 5], [2, 2, 3]);
overlap_complete!(c08_q_complete_3d_3x4x5_2x2x3_p102, 3, P102, [3, 4, 5], [2, 2, 3]);
overlap_complete!(c08_q_complete_3d_3x4x5_2x2x3_p120, 3, P120, [3, 4, 5], [2, 2, 3]);
overlap_complete!(c08_q_complete_3d_3x4x5_2x2x3_p201, 3, P201, [3, 4, 5], [2, 2, 3]);
overlap_complete!(c08_q_complete_3d_3x4x5_2x2x3_p210, 3, P210, [3, 4, 5], [2, 2, 3]);
overlap_complete!(c08_t_complete_3d_4x4x4_2x4x2_p012, 3, P012, [4, 4, 4], [2, 4, 2]);
overlap_complete!(c08_t_complete_3d_4x4x4_2x4x2_p021, 3, P021, [4, 4, 4], [2, 4, 2]);
overlap_complete!(c08_t_complete_3d_4x4x4_2x4x2_p102, 3, P102, [4, 4, 4], [2, 4, 2]);
overlap_complete!(c08_t_complete_3d_4x4x4_2x4x2_p120, 3, P120, [4, 4, 4], [2, 4, 2]);
overlap_complete!(c08_t_complete_3d_4x4x4_2x4x2_p201, 3, P201, [4, 4, 4], [2, 4, 2]);
overlap_complete!(c08_t_complete_3d_4x4x4_2x4x2_p210, 3, P210, [4, 4, 4], [2, 4, 2]);
overlap_complete!(c08_t_complete_3d_7x1x7_3x1x2_p012, 3, P012, [7, 1, 7], [3, 1, 2]);
overlap_complete!(c08_t_complete_3d_7x1x7_3x1x2_p021, 3, P021, [7, 1, 7], [3, 1, 2]);
overlap_complete!(c08_t_complete_3d_7x1x7_3x1x2_p102, 3, P102, [7, 1, 7], [3, 1, 2]);
overlap_complete!(c08_t_complete_3d_7x1x7_3x1x2_p120, 3, P120, [7, 1, 7], [3, 1, 2]);
overlap_complete!(c08_t_complete_3d_7x1x7_3x1x2_p201, 3, P201, [7, 1, 7], [3, 1, 2]);
overlap_complete!(c08_t_complete_3d_7x1x7_3x1x2_p210, 3, P210, [7, 1, 7], [3, 1, 2]);
overlap_complete!(c08_t_complete_3d_2x6x3_2x0x3_p012, 3, P012, [2, 6, 3], [2, 0, 3]);
overlap_complete!(c08_t_complete_3d_2x6x3_2x0x3_p021, 3, P021, [2, 6, 3], [2, 0, 3]);
overlap_complete!(c08_t_complete_3d_2x6x3_2x0x3_p102, 3, P102, [2, 6, 3], [2, 0, 3]);
overlap_complete!(c08_t_complete_3d_2x6x3_2x0x3_p120, 3, P120, [2, 6, 3], [2, 0, 3]);
overlap_complete!(c08_t_complete_3d_2x6x3_2x0x3_p201, 3, P201, [2, 6, 3], [2, 0, 3]);
overlap_complete!(c08_t_complete_3d_2x6x3_2x0x3_p210, 3, P210, [2, 6, 3], [2, 0, 3]);

/// `is_contiguous` agrees with its definition on a concrete shape: the
/// strides are accepted iff every non-size-1 axis has the row-major stride.
macro_rules! contiguous_def {
    ($name:ident, $n:literal, [$($s:expr),*]) => {
        #[kani::proof]
        #[kani::unwind(10)]
        fn $name() {
            let shape: [usize; $n] = [$($s),*];
            let strides: [usize; $n] = kani::any();
            let mut expect = true;
            let mut acc = 1usize;
            let mut k = $n;
            while k > 0 {
                k -= 1;
                if shape[k] != 1 {
                    expect &= strides[k] == acc;
                    acc *= shape[k];
                }
            }
            let got = is_contiguous(&shape, &strides);
            kani::cover!(got, "contiguous reachable");
            kani::cover!(!got, "non-contiguous reachable");
            assert!(got == expect);
        }
    };
}
contiguous_def!(c08_q_contig_2d_3x4, 2, [3, 4]);
contiguous_def!(c08_q_contig_3d_2x1x3, 3, [2, 1, 3]);
contiguous_def!(c08_t_contig_3d_4x3x2, 3, [4, 3, 2]);
