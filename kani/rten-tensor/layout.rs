//! Kani harnesses for `rten_tensor::layout` (property C09, layout level).
//!
//! Each harness applies ONE layout transformation of the real code to a parent
//! layout of concrete shape (contiguous strides, or the strides of a permuted /
//! stepped parent, so non-contiguous sources are covered), with the
//! transformation's arguments symbolic, and compares the result with the naive
//! nested-array model reduced to index algebra: the output shape must equal the
//! model's, and for a symbolic valid output index the storage offset must equal
//! the offset of the source element the model assigns to it.
use super::*;
use crate::slice_range::{SliceItem, SliceRange};

#[inline(always)]
fn mul_small(i: usize, s: usize) -> usize {
    match i {
        0 => 0,
        1 => s,
        2 => 2 * s,
        3 => 3 * s,
        4 => 4 * s,
        5 => 5 * s,
        _ => 6 * s,
    }
}

const BOUND: isize = 1 << 40;

/// Array equality without `memcmp` (whose byte loop would need unwind > 24).
#[inline(always)]
fn eq<const N: usize>(a: [usize; N], b: [usize; N]) -> bool {
    let mut same = true;
    let mut k = 0;
    while k < N {
        same &= a[k] == b[k];
        k += 1;
    }
    same
}

/// Model of one slice item applied to an axis of `size` elements.
/// Returns Err(()) when NumPy-style resolution rejects it, otherwise
/// `(first source index, step, number of selected elements, keeps_dim)`.
fn model_item(item: &SliceItem, size: usize) -> Result<(usize, usize, usize, bool), ()> {
    let n = size as isize;
    match *item {
        SliceItem::Index(i) => {
            let p = if i < 0 { i + n } else { i };
            if p < 0 || p >= n {
                Err(())
            } else {
                Ok((p as usize, 1, 1, false))
            }
        }
        SliceItem::Range(r) => {
            let step = r.step();
            if step <= 0 {
                return Err(());
            }
            let s = if r.start < 0 { r.start + n } else { r.start };
            let e = match r.end {
                Some(e) => {
                    if e < 0 {
                        e + n
                    } else {
                        e
                    }
                }
                None => n,
            };
            if s < 0 || s > n || e < 0 || e > n {
                return Err(());
            }
            let e = if e < s { s } else { e };
            let span = (e - s) as usize;
            let step = step as usize;
            // ceil(span / step) without a symbolic division: span <= 6.
            let mut count = 0usize;
            let mut k = 0usize;
            while k < 6 {
                if mul_small(k, step) < span {
                    count += 1;
                }
                k += 1;
            }
            Ok((s as usize, step, count, true))
        }
    }
}

fn any_item() -> SliceItem {
    if kani::any() {
        let i: isize = kani::any();
        kani::assume(i > -BOUND && i < BOUND);
        SliceItem::Index(i)
    } else {
        let start: isize = kani::any();
        let end: isize = kani::any();
        let has_end: bool = kani::any();
        let step: isize = kani::any();
        kani::assume(start > -BOUND && start < BOUND);
        kani::assume(end > -BOUND && end < BOUND);
        kani::assume(step > -BOUND && step < BOUND && step != 0);
        SliceItem::Range(SliceRange::new(start, if has_end { Some(end) } else { None }, step))
    }
}

/// `slice_dyn`-free check of the generic `slice_layout` through
/// `NdLayout<2>::slice::<M>` for M = 0, 1, 2 on a parent [$d0, $d1] with
/// strides [$s0, $s1] (contiguous, transposed or stepped parent).
macro_rules! slice_2d {
    ($name:ident, [$d0:expr, $d1:expr], [$s0:expr, $s1:expr]) => {
        #[kani::proof]
        #[kani::unwind(8)]
        fn $name() {
            let parent = NdLayout::<2> {
                shape: [$d0, $d1],
                strides: [$s0, $s1],
            };
            let items = [any_item(), any_item()];
            let n_items: usize = kani::any();
            kani::assume(n_items <= 2);
            let items = &items[..n_items];
            // Model.
            let full = SliceItem::Range(SliceRange::new(0, None, 1));
            let m0 = model_item(if n_items > 0 { &items[0] } else { &full }, $d0);
            let m1 = model_item(if n_items > 1 { &items[1] } else { &full }, $d1);
            let model_ok = m0.is_ok() && m1.is_ok();
            let out_rank = if model_ok {
                (m0.unwrap().3 as usize) + (m1.unwrap().3 as usize)
            } else {
                3
            };
            // Real code. The static output rank M must not be smaller than the
            // number of kept dims (slice_layout indexes its M-sized output
            // arrays: a panic, i.e. a loud error, not a silent one), so the
            // matching rank is used when the model accepts, and rank 2 (the
            // largest) when it rejects.
            let r0 = if out_rank == 0 { Some(parent.slice::<0>(items)) } else { None };
            let r1 = if out_rank == 1 { Some(parent.slice::<1>(items)) } else { None };
            let r2 = if out_rank >= 2 { Some(parent.slice::<2>(items)) } else { None };
            kani::cover!(out_rank == 2 && model_ok, "rank-2 result");
            kani::cover!(out_rank == 1, "rank-1 result");
            kani::cover!(out_rank == 0, "rank-0 result");
            kani::cover!(!model_ok, "rejected");
            if let Some(r) = &r0 {
                assert!(r.is_ok(), "rank-0 slice rejected although the model accepts");
            }
            if let Some(r) = &r1 {
                assert!(r.is_ok(), "rank-1 slice rejected although the model accepts");
            }
            if let Some(r) = &r2 {
                assert!(r.is_ok() == model_ok, "rank-2 acceptance differs from the model");
            }
            if !model_ok {
                return;
            }
            let (a0, st0, c0, k0) = m0.unwrap();
            let (a1, st1, c1, k1) = m1.unwrap();
            let parent_len = ($d0 - 1) * $s0 + ($d1 - 1) * $s1 + 1;
            if let Some(Ok((range, l))) = r2 {
                // Also for empty results: the storage range handed to the view
                // must lie inside the parent (TensorBase::slice asserts it).
                assert!(range.start <= range.end && range.end <= parent_len, "slice range outside the parent");
                assert!(eq(l.shape, [c0, c1]), "sliced shape differs from the model");
                let i: [usize; 2] = kani::any();
                kani::assume(i[0] < c0 && i[1] < c1);
                let got = range.start + mul_small(i[0], l.strides[0]) + mul_small(i[1], l.strides[1]);
                let src = (a0 + mul_small(i[0], st0)) * $s0 + (a1 + mul_small(i[1], st1)) * $s1;
                assert!(got == src, "sliced element maps to the wrong source element");
                assert!(got < range.end && range.end <= parent_len, "slice range outside the parent");
            }
            if let Some(Ok((range, l))) = r1 {
                let (c, a_fixed, s_fixed, a_var, st_var, s_var) = if k0 {
                    (c0, a1, $s1, a0, st0, $s0)
                } else {
                    (c1, a0, $s0, a1, st1, $s1)
                };
                assert!(range.start <= range.end && range.end <= parent_len, "slice range outside the parent");
                assert!(eq(l.shape, [c]), "sliced shape differs from the model");
                let i: usize = kani::any();
                kani::assume(i < c);
                let got = range.start + mul_small(i, l.strides[0]);
                let src = a_fixed * s_fixed + (a_var + mul_small(i, st_var)) * s_var;
                assert!(got == src, "sliced element maps to the wrong source element");
                assert!(got < range.end && range.end <= parent_len, "slice range outside the parent");
            }
            if let Some(Ok((range, _l))) = r0 {
                assert!(range.start == a0 * $s0 + a1 * $s1);
                assert!(range.end == range.start + 1 && range.end <= parent_len);
            }
        }
    };
}
slice_2d!(c09_q_slice_3x4_contig, [3, 4], [4, 1]);
slice_2d!(c09_q_slice_4x3_transposed, [4, 3], [1, 4]);
slice_2d!(c09_q_slice_2x3_stepped_parent, [2, 3], [12, 2]);
slice_2d!(c09_t_slice_1x5_contig, [1, 5], [5, 1]);
slice_2d!(c09_t_slice_4x4_transposed, [4, 4], [1, 4]);

/// Rank-1 slice with the *full* isize range of start/end/step (thorough): no
/// bound on the magnitudes except isize::MIN itself for start/end (negating it
/// overflows in `offset_from_end`, dev profile only: listed in DESIGN.md).
#[kani::proof]
#[kani::unwind(8)]
fn c09_t_slice_1d_full_range() {
    let parent = NdLayout::<1> { shape: [5], strides: [3] };
    let start: isize = kani::any();
    let end: isize = kani::any();
    let has_end: bool = kani::any();
    let step: isize = kani::any();
    kani::assume(step != 0 && start != isize::MIN && end != isize::MIN);
    // stride * step must be representable (otherwise dev-profile overflow).
    kani::assume(step < (isize::MAX / 4));
    let item = SliceItem::Range(SliceRange::new(start, if has_end { Some(end) } else { None }, step));
    let m = model_item(&item, 5);
    let r = parent.slice::<1>(&[item]);
    kani::cover!(r.is_ok(), "accepted");
    assert!(r.is_ok() == m.is_ok());
    if let (Ok((range, l)), Ok((a, st, c, _))) = (r, m) {
        assert!(eq(l.shape, [c]));
        let i: usize = kani::any();
        kani::assume(i < c);
        let got = range.start + mul_small(i, l.strides[0]);
        assert!(got == (a + mul_small(i, st)) * 3);
        assert!(range.end <= 13);
    }
}

/// permuted / transposed: shape and strides are the permutation of the
/// parent's, for every valid permutation (symbolic); invalid ones panic
/// (documented), so validity is assumed.
#[kani::proof]
#[kani::unwind(8)]
fn c09_q_permuted_3d() {
    let strides: [usize; 3] = kani::any();
    let parent = NdLayout::<3> { shape: [2, 3, 4], strides };
    let perm: [usize; 3] = kani::any();
    kani::assume(is_valid_permutation(3, &perm));
    let p = parent.permuted(perm);
    let t = parent.transposed();
    kani::cover!(perm[0] == 2 && perm[1] == 0, "non-trivial permutation");
    let mut k = 0;
    while k < 3 {
        assert!(p.shape[k] == parent.shape[perm[k]]);
        assert!(p.strides[k] == parent.strides[perm[k]]);
        assert!(t.shape[k] == parent.shape[2 - k]);
        assert!(t.strides[k] == parent.strides[2 - k]);
        k += 1;
    }
}

/// move_axis on a static-rank layout: the axis `from` ends up at position `to`
/// and the others keep their relative order (NumPy `moveaxis`), for symbolic
/// strides. (from, to) is concrete per harness: a symbolic pair makes the
/// SmallVec remove/insert inside `DynLayout::move_axis` exhaust memory.
macro_rules! move_axis_3d {
    ($name:ident, $from:expr, $to:expr) => {
        #[kani::proof]
        #[kani::unwind(10)]
        fn $name() {
            let strides: [usize; 3] = kani::any();
            let mut l = NdLayout::<3> { shape: [2, 3, 4], strides };
            l.move_axis($from, $to);
            // Reference order: remove `from`, insert it at `to`.
            let mut order = [0usize; 3];
            let mut k = 0;
            let mut src = 0;
            while k < 3 {
                if k == $to {
                    order[k] = $from;
                } else {
                    if src == $from {
                        src += 1;
                    }
                    order[k] = src;
                    src += 1;
                }
                k += 1;
            }
            kani::cover!(true, "move_axis returned");
            let shape = [2usize, 3, 4];
            let mut k = 0;
            while k < 3 {
                assert!(l.shape[k] == shape[order[k]], "move_axis produced the wrong shape");
                assert!(l.strides[k] == strides[order[k]], "move_axis produced the wrong strides");
                k += 1;
            }
        }
    };
}
move_axis_3d!(c09_q_move_axis_2_to_0, 2, 0);
move_axis_3d!(c09_q_move_axis_0_to_2, 0, 2);
move_axis_3d!(c09_t_move_axis_1_to_0, 1, 0);
move_axis_3d!(c09_t_move_axis_2_to_1, 2, 1);
move_axis_3d!(c09_t_move_axis_0_to_1, 0, 1);
move_axis_3d!(c09_t_move_axis_1_to_1, 1, 1);

/// `is_valid_permutation` agrees with its definition on 3 symbolic entries.
#[kani::proof]
#[kani::unwind(8)]
fn c09_q_valid_permutation_def() {
    let perm: [usize; 3] = kani::any();
    let got = is_valid_permutation(3, &perm);
    let in_range = perm[0] < 3 && perm[1] < 3 && perm[2] < 3;
    let distinct = perm[0] != perm[1] && perm[0] != perm[2] && perm[1] != perm[2];
    kani::cover!(got, "valid permutation reachable");
    assert!(got == (in_range && distinct));
}

/// broadcast of a concrete rank-2 layout to a symbolic rank-3 shape: accepted
/// iff NumPy allows it; broadcast dims get stride 0, others keep theirs.
macro_rules! broadcast_2_to_3 {
    ($name:ident, [$d0:expr, $d1:expr]) => {
        #[kani::proof]
        #[kani::unwind(8)]
        fn $name() {
            let strides: [usize; 2] = kani::any();
            let parent = NdLayout::<2> { shape: [$d0, $d1], strides };
            let target: [usize; 3] = kani::any();
            kani::assume(target[0] <= 4 && target[1] <= 4 && target[2] <= 4);
            let ok0 = $d0 == target[1] || $d0 == 1;
            let ok1 = $d1 == target[2] || $d1 == 1;
            let r: Result<NdLayout<3>, _> = parent.broadcast(target);
            kani::cover!(r.is_ok(), "broadcast accepted");
            // (a [1, 1] layout broadcasts to every target)
            kani::cover!(r.is_err() || ($d0 == 1 && $d1 == 1), "broadcast rejected");
            assert!(r.is_ok() == (ok0 && ok1), "broadcast acceptance differs from NumPy rule");
            if let Ok(b) = r {
                assert!(eq(b.shape, target));
                assert!(b.strides[0] == 0);
                assert!(b.strides[1] == if $d0 == 1 && target[1] > 1 { 0 } else { strides[0] });
                assert!(b.strides[2] == if $d1 == 1 && target[2] > 1 { 0 } else { strides[1] });
            }
        }
    };
}
broadcast_2_to_3!(c09_q_broadcast_1x3, [1, 3]);
broadcast_2_to_3!(c09_q_broadcast_2x1, [2, 1]);
broadcast_2_to_3!(c09_t_broadcast_1x1, [1, 1]);
broadcast_2_to_3!(c09_t_broadcast_4x2, [4, 2]);

/// split / slice_axis / index_axis at layout level on a concrete shape with
/// symbolic strides (< 2^20): the two halves (resp. the slice, the indexed
/// sub-layout) keep the strides, have the model's shapes, and their offset
/// ranges start at the first selected element and stay inside the parent.
macro_rules! axis_ops {
    ($name:ident, [$d0:expr, $d1:expr, $d2:expr]) => {
        #[kani::proof]
        #[kani::unwind(8)]
        fn $name() {
            let strides: [usize; 3] = kani::any();
            kani::assume(strides[0] < (1 << 20) && strides[1] < (1 << 20) && strides[2] < (1 << 20));
            let shape = [$d0, $d1, $d2];
            let parent = NdLayout::<3> { shape, strides };
            let parent_len = parent.min_data_len();
            let axis: usize = kani::any();
            kani::assume(axis < 3);
            let mid: usize = kani::any();
            kani::assume(mid <= shape[axis]);
            let ((lr, l), (rr, r)) = parent.split(axis, mid);
            let mut k = 0;
            while k < 3 {
                assert!(l.shape[k] == if k == axis { mid } else { shape[k] });
                assert!(r.shape[k] == if k == axis { shape[axis] - mid } else { shape[k] });
                assert!(l.strides[k] == strides[k] && r.strides[k] == strides[k]);
                k += 1;
            }
            assert!(lr.start == 0 && lr.end == l.min_data_len() && lr.end <= parent_len);
            if mid < shape[axis] {
                assert!(rr.start == mul_small(mid, strides[axis]), "right half starts at the wrong element");
                assert!(rr.end == parent_len);
                // The right half's own extent fits in the range it was given.
                assert!(r.min_data_len() <= rr.end - rr.start, "right half larger than its storage range");
            } else {
                assert!(rr.start == rr.end);
            }
            kani::cover!(mid > 0 && mid < shape[axis], "proper split");

            // slice_axis
            let a: usize = kani::any();
            let b: usize = kani::any();
            // Bounds above isize::MAX make the *error value* unrepresentable
            // (SliceRange stores isize): slice_axis then panics while building
            // its InvalidRange error. Loud, not silent, so outside C09.
            kani::assume(a <= isize::MAX as usize && b <= isize::MAX as usize);
            let sr = parent.slice_axis(axis, a..b);
            assert!(sr.is_ok() == (a <= b && b <= shape[axis]), "slice_axis acceptance wrong");
            if let Ok((range, s)) = sr {
                assert!(s.shape[axis] == b - a && eq(s.strides, strides));
                if b > a {
                    assert!(range.start == mul_small(a, strides[axis]));
                    assert!(range.end == range.start + s.min_data_len() && range.end <= parent_len);
                } else {
                    assert!(range.start == range.end);
                }
            }

            // index_axis
            let idx: usize = kani::any();
            kani::assume(idx < shape[axis]);
            let (range, il) = parent.index_axis(axis, idx);
            let (o0, o1) = if axis == 0 { (1, 2) } else if axis == 1 { (0, 2) } else { (0, 1) };
            assert!(eq(il.shape, [shape[o0], shape[o1]]) && eq(il.strides, [strides[o0], strides[o1]]));
            assert!(range.start == mul_small(idx, strides[axis]));
            assert!(range.end == range.start + il.min_data_len() && range.end <= parent_len);
        }
    };
}
axis_ops!(c09_q_axis_ops_2x3x4, [2, 3, 4]);
axis_ops!(c09_q_axis_ops_3x1x2, [3, 1, 2]);
axis_ops!(c09_t_axis_ops_4x4x4, [4, 4, 4]);
axis_ops!(c09_t_axis_ops_1x4x1, [1, 4, 1]);

/// insert_dim / remove_dim / squeezed keep the element -> offset map: the new
/// axis has size 1 (any stride), removing a size-1 axis drops exactly it.
#[kani::proof]
#[kani::unwind(8)]
fn c09_q_insert_remove_dim() {
    let strides: [usize; 2] = kani::any();
    kani::assume(strides[0] < (1 << 20) && strides[1] < (1 << 20));
    let parent = NdLayout::<2> { shape: [3, 2], strides };
    let dim: usize = kani::any();
    kani::assume(dim <= 2);
    let ins: NdLayout<3> = parent.insert_dim(dim);
    assert!(ins.shape[dim] == 1);
    let (a, b) = if dim == 0 { (1, 2) } else if dim == 1 { (0, 2) } else { (0, 1) };
    assert!(ins.shape[a] == 3 && ins.shape[b] == 2);
    assert!(ins.strides[a] == strides[0] && ins.strides[b] == strides[1]);
    let back: NdLayout<2> = ins.remove_dim(dim);
    assert!(eq(back.shape, parent.shape) && eq(back.strides, parent.strides));
    kani::cover!(dim == 1, "middle insertion");
}

/// reshaped_for_view: accepted iff the source is contiguous and the element
/// counts agree; the result is the contiguous layout of the new shape, so the
/// k-th element in row-major order stays the k-th storage element.
#[kani::proof]
#[kani::unwind(8)]
fn c09_q_reshape_view() {
    let strides: [usize; 2] = kani::any();
    let parent = NdLayout::<2> { shape: [2, 6], strides };
    let target: [usize; 3] = kani::any();
    kani::assume(target[0] <= 12 && target[1] <= 12 && target[2] <= 12);
    let r = parent.reshaped_for_view(target);
    let contiguous = strides[0] == 6 && strides[1] == 1;
    let same_len = (target[0] as u64) * (target[1] as u64) * (target[2] as u64) == 12;
    kani::cover!(r.is_ok(), "reshape accepted");
    assert!(r.is_ok() == (contiguous && same_len), "reshape acceptance wrong");
    if let Ok(l) = r {
        assert!(eq(l.shape, target));
        assert!(l.strides[2] == 1 && l.strides[1] == target[2] && l.strides[0] == target[1] * target[2]);
    }
}

/// (Instances [2,2,2] and [2,3,2] exceeded the memory limit; [1,3,2] -- one size-1
/// axis, two candidates for merging -- verifies.)
/// merge_axes: for a concrete shape and symbolic strides the merged dims
/// reproduce the offset of every element: the harness recomputes the offset of
/// a symbolic element through the merged dims by row-major decomposition of its
/// linear index and compares with the offset through the original dims.
macro_rules! merge_axes_offsets {
    ($name:ident, [$d0:expr, $d1:expr, $d2:expr], $unwind:expr) => {
        #[kani::proof]
        #[kani::unwind($unwind)]
        fn $name() {
            const TOTAL: usize = $d0 * $d1 * $d2;
            let shape = [$d0, $d1, $d2];
            let strides: [usize; 3] = kani::any();
            kani::assume(strides[0] < (1 << 20) && strides[1] < (1 << 20) && strides[2] < (1 << 20));
            let merged_sv = merge_axes(&shape, &strides);
            // Copy into a fixed array once (indexing a SmallVec of symbolic
            // length repeatedly makes CBMC's formula explode).
            let n_merged = merged_sv.len();
            assert!(n_merged >= 1 && n_merged <= 3);
            let mut merged = [(1usize, 0usize); 3];
            let mut m = 0;
            for d in merged_sv.iter() {
                if m < 3 {
                    merged[m] = *d;
                }
                m += 1;
            }
            std::mem::forget(merged_sv);
            kani::cover!(n_merged == 2, "partly merged");
            let mut prod = 1usize;
            let mut m = 0;
            while m < 3 {
                if m < n_merged {
                    prod *= merged[m].0;
                }
                m += 1;
            }
            assert!(prod == TOTAL, "merged sizes do not multiply to the element count");
            // Symbolic element.
            let i: [usize; 3] = kani::any();
            kani::assume(i[0] < $d0 && i[1] < $d1 && i[2] < $d2);
            let orig = mul_small(i[0], strides[0]) + mul_small(i[1], strides[1]) + mul_small(i[2], strides[2]);
            let mut k = (i[0] * $d1 + i[1]) * $d2 + i[2];
            let mut off = 0usize;
            let mut m = 3;
            while m > 0 {
                m -= 1;
                if m < n_merged {
                    let (size, stride) = merged[m];
                    // k / size and k % size with the divisor turned into a
                    // constant per unrolled iteration (size is a product of
                    // some of the concrete dims, so 1 <= size <= TOTAL).
                    let mut q = 0usize;
                    let mut rem = 0usize;
                    let mut d = 1;
                    while d <= TOTAL {
                        if size == d {
                            q = k / d;
                            rem = k % d;
                        }
                        d += 1;
                    }
                    assert!(size >= 1 && size <= TOTAL);
                    off += rem * stride;
                    k = q;
                }
            }
            assert!(off == orig, "merged dims map an element to a different offset");
        }
    };
}
merge_axes_offsets!(c09_t_merge_axes_1x3x2, [1, 3, 2], 8);
