//! Kani harnesses for `rten_tensor::tensor` (property C06; constructor clause
//! shared with C05).
//!
//! Memory safety is decided two ways at once: (1) CBMC's pointer checks on
//! every dereference reached through the *safe* API, together with the
//! `debug_assert!(offset < len)` in `Storage::get_unchecked*` (Kani models the
//! dev profile, so the assertion is live); (2) explicit assertions that the
//! address of the element returned lies inside the backing buffer and that two
//! distinct valid indices of a mutable tensor give two distinct addresses.
use super::*;
use crate::layout::NdLayout;
use crate::slice_range::SliceRange;
use crate::{NdTensor, NdTensorView, NdTensorViewMut, TensorView};

#[inline(always)]
fn in_buf<T>(p: *const T, base: *const T, len: usize) -> bool {
    let a = p as usize;
    let b = base as usize;
    a >= b && a < b + len * std::mem::size_of::<T>().max(1)
}

// ---------------------------------------------------------------------------
// Constructors with a fully symbolic shape (ranks 1 and 2): only one symbolic
// product occurs, which CBMC decides in seconds.

/// try_from_data, static rank 1: any shape, storage of 0..=8 bytes.
#[kani::proof]
#[kani::unwind(6)]
fn c06_q_try_from_data_nd1() {
    let buf: [u8; 8] = kani::any();
    let len: usize = kani::any();
    kani::assume(len <= 8);
    let shape: [usize; 1] = kani::any();
    let r = NdTensorView::<u8, 1>::try_from_data(shape, &buf[..len]);
    kani::cover!(r.is_ok(), "accepted");
    kani::cover!(r.is_err(), "rejected");
    if let Ok(t) = r {
        assert!(shape[0] == len);
        assert!(t.len() == len);
        let idx: [usize; 1] = kani::any();
        if let Some(e) = t.get(idx) {
            assert!(idx[0] < shape[0]);
            assert!(in_buf(e as *const u8, buf.as_ptr(), len));
        } else {
            assert!(idx[0] >= shape[0]);
        }
    }
}

/// try_from_data, static rank 2: any shape (full 64-bit), storage 0..=8 bytes.
/// Accepting implies the exact element count equals the storage length.
#[kani::proof]
#[kani::unwind(6)]
fn c06_q_try_from_data_nd2() {
    let buf: [u8; 8] = kani::any();
    let len: usize = kani::any();
    kani::assume(len <= 8);
    let shape: [usize; 2] = kani::any();
    let r = NdTensorView::<u8, 2>::try_from_data(shape, &buf[..len]);
    kani::cover!(r.is_ok() && len == 6, "accepted 6 elements");
    kani::cover!(r.is_err(), "rejected");
    if let Ok(t) = r {
        let exact = (shape[0] as u128) * (shape[1] as u128);
        assert!(exact == len as u128, "accepted shape whose element count differs from storage length");
        let idx: [usize; 2] = kani::any();
        if let Some(e) = t.get(idx) {
            assert!(idx[0] < shape[0] && idx[1] < shape[1]);
            assert!(in_buf(e as *const u8, buf.as_ptr(), len));
        }
    }
}

/// try_from_data, static rank 3 with the middle dimension concrete.
#[kani::proof]
#[kani::unwind(6)]
fn c06_t_try_from_data_nd3() {
    let buf: [u8; 8] = kani::any();
    let len: usize = kani::any();
    kani::assume(len <= 8);
    let a: usize = kani::any();
    let c: usize = kani::any();
    let shape = [a, 2, c];
    let r = NdTensorView::<u8, 3>::try_from_data(shape, &buf[..len]);
    kani::cover!(r.is_ok() && len == 8, "accepted 8 elements");
    if let Ok(t) = r {
        let exact = (a as u128) * 2 * (c as u128);
        assert!(exact == len as u128);
        let idx: [usize; 3] = kani::any();
        if let Some(e) = t.get(idx) {
            assert!(in_buf(e as *const u8, buf.as_ptr(), len));
        }
    }
}

/// try_from_data, dynamic rank (DynLayout), rank 2 symbolic shape.
#[kani::proof]
#[kani::unwind(6)]
fn c06_q_try_from_data_dyn2() {
    let buf: [u8; 8] = kani::any();
    let len: usize = kani::any();
    kani::assume(len <= 8);
    let shape: [usize; 2] = kani::any();
    let r = TensorView::<u8>::try_from_data(&shape[..], &buf[..len]);
    kani::cover!(r.is_ok() && len == 4, "accepted 4 elements");
    if let Ok(t) = r {
        let exact = (shape[0] as u128) * (shape[1] as u128);
        assert!(exact == len as u128);
        let idx: [usize; 2] = kani::any();
        // Only valid indices here: DynLayout::offset multiplies index by stride
        // *before* looking at the validity flag, so an out-of-range index can
        // overflow (dev-profile panic, `None` in release) -- not a memory-safety
        // matter. Rejection of invalid indices is covered by the NdLayout harnesses.
        kani::assume(idx[0] < shape[0] && idx[1] < shape[1]);
        match t.get(idx) {
            Some(e) => {
                assert!(in_buf(e as *const u8, buf.as_ptr(), len))
            }
            None => assert!(false, "valid index rejected"),
        }
        std::mem::forget(t);
    }
}

// ---------------------------------------------------------------------------
// Constructors with custom strides: concrete shape family, strides symbolic
// over the full 64-bit range, storage length symbolic 0..=CAP.

macro_rules! with_strides {
    ($name_ro:ident, $name_mut:ident, $n:literal, [$($s:expr),*]) => {
        /// from_slice_with_strides (overlap allowed): accepted => every valid
        /// index reads inside the slice.
        #[kani::proof]
        #[kani::unwind(10)]
        fn $name_ro() {
            let buf: [u8; 16] = kani::any();
            let len: usize = kani::any();
            kani::assume(len <= 16);
            let shape: [usize; $n] = [$($s),*];
            let strides: [usize; $n] = kani::any();
            let r = NdTensorView::<u8, $n>::from_slice_with_strides(shape, &buf[..len], strides);
            kani::cover!(r.is_ok(), "accepted");
            // (an empty shape needs no storage and is accepted for every stride vector)
            let is_empty = { let mut e = false; let mut k = 0; while k < $n { e |= shape[k] == 0; k += 1; } e };
            kani::cover!(r.is_err() || is_empty, "rejected");
            if let Ok(t) = r {
                let idx: [usize; $n] = kani::any();
                let mut valid = true;
                let mut k = 0;
                while k < $n {
                    valid &= idx[k] < shape[k];
                    k += 1;
                }
                kani::assume(valid);
                // Safe indexing: bounds-checked per dim, then get_unchecked.
                let e: &u8 = &t[idx];
                assert!(in_buf(e as *const u8, buf.as_ptr(), len));
            }
        }

        /// from_data_with_strides on mutable storage: accepted => in bounds
        /// and two distinct valid indices never alias.
        #[kani::proof]
        #[kani::unwind(10)]
        fn $name_mut() {
            let mut buf: [u8; 16] = kani::any();
            let base = buf.as_ptr();
            let len: usize = kani::any();
            kani::assume(len <= 16);
            let shape: [usize; $n] = [$($s),*];
            let strides: [usize; $n] = kani::any();
            let r = NdTensorViewMut::<u8, $n>::from_data_with_strides(shape, &mut buf[..len], strides);
            kani::cover!(r.is_ok(), "accepted");
            if let Ok(mut t) = r {
                let i: [usize; $n] = kani::any();
                let j: [usize; $n] = kani::any();
                let mut differ = false;
                let mut k = 0;
                while k < $n {
                    kani::assume(i[k] < shape[k] && j[k] < shape[k]);
                    differ |= i[k] != j[k];
                    k += 1;
                }
                let pi = &mut t[i] as *mut u8;
                let pj = &mut t[j] as *mut u8;
                assert!(in_buf(pi as *const u8, base, len));
                assert!(in_buf(pj as *const u8, base, len));
                if differ {
                    assert!(pi != pj, "two indices of a mutable tensor alias");
                }
            }
        }
    };
}
with_strides!(c06_q_slice_strides_1d_3, c06_q_data_strides_1d_3, 1, [3]);
with_strides!(c06_q_slice_strides_2d_2x3, c06_q_data_strides_2d_2x3, 2, [2, 3]);
with_strides!(c06_q_slice_strides_2d_3x1, c06_q_data_strides_2d_3x1, 2, [3, 1]);
with_strides!(c06_q_slice_strides_3d_2x2x2, c06_q_data_strides_3d_2x2x2, 3, [2, 2, 2]);
with_strides!(c06_t_slice_strides_2d_4x4, c06_t_data_strides_2d_4x4, 2, [4, 4]);
with_strides!(c06_t_slice_strides_3d_2x3x2, c06_t_data_strides_3d_2x3x2, 3, [2, 3, 2]);
with_strides!(c06_t_slice_strides_2d_0x3, c06_t_data_strides_2d_0x3, 2, [0, 3]);

/// from_storage_and_layout with a layout made by from_shape_and_strides
/// (AllowOverlap): either panics (assert) or yields a tensor whose indexing is
/// in bounds. Panics are the documented rejection, so they are not failures:
/// the harness only continues when the documented preconditions hold.
macro_rules! storage_and_layout {
    ($name:ident, $n:literal, [$($s:expr),*]) => {
        #[kani::proof]
        #[kani::unwind(10)]
        fn $name() {
            use crate::layout::{MutLayout, OverlapPolicy};
            use crate::storage::IntoStorage;
            let buf: [u8; 16] = kani::any();
            let len: usize = kani::any();
            kani::assume(len <= 16);
            let shape: [usize; $n] = [$($s),*];
            let strides: [usize; $n] = kani::any();
            let layout = NdLayout::<$n>::from_shape_and_strides(shape, strides, OverlapPolicy::AllowOverlap).unwrap();
            // Documented precondition (otherwise from_storage_and_layout panics).
            kani::assume(layout.min_data_len() <= len);
            let t = NdTensorView::<u8, $n>::from_storage_and_layout((&buf[..len]).into_storage(), layout);
            let idx: [usize; $n] = kani::any();
            let mut k = 0;
            while k < $n {
                kani::assume(idx[k] < shape[k]);
                k += 1;
            }
            kani::cover!(true, "indexing reached");
            let e: &u8 = &t[idx];
            assert!(in_buf(e as *const u8, buf.as_ptr(), len));
        }
    };
}
storage_and_layout!(c06_q_storage_layout_2d_3x2, 2, [3, 2]);
storage_and_layout!(c06_t_storage_layout_3d_2x2x3, 3, [2, 2, 3]);

// ---------------------------------------------------------------------------
// Views derived from a valid tensor: slicing, splitting, indexing an axis.

fn any_slice_range(bound: isize) -> SliceRange {
    let start: isize = kani::any();
    let end: isize = kani::any();
    let has_end: bool = kani::any();
    let step: isize = kani::any();
    kani::assume(start >= -bound && start <= bound);
    kani::assume(end >= -bound && end <= bound);
    kani::assume(step >= -bound && step <= bound && step != 0);
    SliceRange::new(start, if has_end { Some(end) } else { None }, step)
}

// (A `try_slice_dyn` harness -- DynLayout / SmallVec slicing with symbolic items -- ran out of
// memory even on a 2x3 parent; the generic `slice_layout` it shares with the static-rank path is
// covered below and under C09.)

/// Same on a transposed (non-contiguous) parent, static-rank result.
#[kani::proof]
#[kani::unwind(10)]
fn c06_q_slice_nd_transposed_4x3() {
    let buf: [u8; 12] = kani::any();
    let t = NdTensorView::<u8, 2>::from_data([3, 4], &buf[..]);
    let tt = t.transposed();
    let a = any_slice_range(6);
    let b = any_slice_range(6);
    let r = tt.try_slice((a, b));
    kani::cover!(r.is_ok(), "slice accepted");
    if let Ok(v) = r {
        let idx: [usize; 2] = kani::any();
        if let Some(e) = v.get(idx) {
            assert!(in_buf(e as *const u8, buf.as_ptr(), 12));
        }
    }
}

/// split_at_mut on a mutable view over a concrete shape with symbolic strides
/// that the constructor accepted: the two halves never alias and stay in bounds.
macro_rules! split_mut {
    ($name:ident, $n:literal, [$($s:expr),*]) => {
        #[kani::proof]
        #[kani::unwind(10)]
        fn $name() {
            let mut buf: [u8; 16] = kani::any();
            let base = buf.as_ptr();
            let shape: [usize; $n] = [$($s),*];
            let strides: [usize; $n] = kani::any();
            let mut k = 0;
            while k < $n {
                kani::assume(strides[k] <= 16);
                k += 1;
            }
            let r = NdTensorViewMut::<u8, $n>::from_data_with_strides(shape, &mut buf[..], strides);
            if let Ok(t) = r {
                let axis: usize = kani::any();
                let mid: usize = kani::any();
                kani::assume(axis < $n);
                kani::assume(mid <= shape[axis]);
                let (mut l, mut rr) = t.split_at_mut(axis, mid);
                let i: [usize; $n] = kani::any();
                let j: [usize; $n] = kani::any();
                if let (Some(a), Some(b)) = (l.get_mut(i), rr.get_mut(j)) {
                    kani::cover!(true, "both halves non-empty");
                    let pa = a as *mut u8;
                    let pb = b as *mut u8;
                    assert!(in_buf(pa as *const u8, base, 16));
                    assert!(in_buf(pb as *const u8, base, 16));
                    assert!(pa != pb, "split_at_mut halves alias");
                }
            }
        }
    };
}
split_mut!(c06_q_split_mut_2d_3x2, 2, [3, 2]);
split_mut!(c06_q_split_mut_1d_4, 1, [4]);
split_mut!(c06_t_split_mut_3d_2x2x2, 3, [2, 2, 2]);
split_mut!(c06_t_split_mut_2d_4x3, 2, [4, 3]);

/// index_axis / slice_axis on a strided view: results stay inside the parent.
#[kani::proof]
#[kani::unwind(10)]
fn c06_q_index_axis_2d_3x4() {
    let buf: [u8; 16] = kani::any();
    let strides: [usize; 2] = kani::any();
    kani::assume(strides[0] <= 16 && strides[1] <= 16);
    let r = NdTensorView::<u8, 2>::from_slice_with_strides([3, 4], &buf[..], strides);
    if let Ok(t) = r {
        let axis: usize = kani::any();
        let index: usize = kani::any();
        kani::assume(axis < 2 && index < t.size(axis));
        let v = t.index_axis(axis, index);
        let i: [usize; 1] = kani::any();
        if let Some(e) = v.get(i) {
            kani::cover!(true, "element read");
            assert!(in_buf(e as *const u8, buf.as_ptr(), 16));
            // index_axis selects exactly the requested row/column.
            let full = if axis == 0 { [index, i[0]] } else { [i[0], index] };
            assert!(std::ptr::eq(e, &t[full]));
        }
    }
}

/// Broadcast views (stride 0) of a small tensor read in bounds.
#[kani::proof]
#[kani::unwind(10)]
fn c06_q_broadcast_read() {
    let buf: [u8; 3] = kani::any();
    let t = NdTensorView::<u8, 2>::from_data([1, 3], &buf[..]);
    let rows: usize = kani::any();
    kani::assume(rows <= 4);
    let b = t.try_broadcast([rows, 3]);
    if let Ok(b) = b {
        let idx: [usize; 2] = kani::any();
        if let Some(e) = b.get(idx) {
            kani::cover!(idx[0] == 3, "broadcast row read");
            assert!(in_buf(e as *const u8, buf.as_ptr(), 3));
            assert!(*e == buf[idx[1]]);
        }
    }
}

// ---------------------------------------------------------------------------
// Capacity expansion (has_capacity / expanded_layout, used by append/concat):
// shared by C06 and C08 ("accepted as non-overlapping for capacity expansion").

/// A contiguous or row-padded owned tensor with spare Vec capacity: if
/// `has_capacity(axis, new_size)` says the tensor can grow in place, then in
/// the grown layout two distinct valid indices never share an offset and every
/// offset is inside the Vec's capacity. (axis, new_size) are concrete per
/// harness -- a symbolic new size makes the overlap check's products symbolic
/// by symbolic, which does not finish -- and the two indices are symbolic.
macro_rules! expand_capacity {
    ($name:ident, [$d0:expr, $d1:expr], [$s0:expr, $s1:expr], $cap:expr, $axis:expr, $new:expr, $expect:expr) => {
        #[kani::proof]
        #[kani::unwind(20)]
        fn $name() {
            let mut data: Vec<u8> = Vec::with_capacity($cap);
            let need = ($d0 - 1) * $s0 + ($d1 - 1) * $s1 + 1;
            data.resize(need, 0);
            let cap = data.capacity();
            let t = NdTensor::<u8, 2>::from_data_with_strides([$d0, $d1], data, [$s0, $s1]).unwrap();
            let ok = t.has_capacity($axis, $new);
            kani::cover!(true, "has_capacity returned");
            assert!(ok == $expect, "has_capacity differs from the expected answer for this instance");
            if ok {
                let mut shape = [$d0, $d1];
                shape[$axis] = $new;
                let strides = [$s0, $s1];
                let i: [usize; 2] = kani::any();
                let j: [usize; 2] = kani::any();
                kani::assume(i[0] < shape[0] && i[1] < shape[1]);
                kani::assume(j[0] < shape[0] && j[1] < shape[1]);
                kani::assume(i[0] != j[0] || i[1] != j[1]);
                let oi = i[0] * strides[0] + i[1] * strides[1];
                let oj = j[0] * strides[0] + j[1] * strides[1];
                assert!(oi != oj, "capacity expansion accepted an overlapping layout");
                assert!(oi < cap && oj < cap, "capacity expansion accepted a layout larger than the buffer");
            }
            std::mem::forget(t);
        }
    };
}
// contiguous 2x2 in a Vec of capacity 8
expand_capacity!(c08_q_expand_2x2_axis1_to_3, [2, 2], [2, 1], 8, 1, 3, false); // inner axis: rows would overlap
expand_capacity!(c08_q_expand_2x2_axis0_to_3, [2, 2], [2, 1], 8, 0, 3, true); // outer axis: fits
expand_capacity!(c08_t_expand_2x2_axis0_to_5, [2, 2], [2, 1], 8, 0, 5, false); // exceeds capacity
expand_capacity!(c08_t_expand_2x2_axis1_to_2, [2, 2], [2, 1], 8, 1, 2, true); // no growth
// a size-1 outer axis whose (never validated) stride is too small for a second row
expand_capacity!(c08_q_expand_1x4_stale_stride_axis0_to_2, [1, 4], [2, 1], 16, 0, 2, false);
expand_capacity!(c06_q_expand_2x3_axis1_to_4, [2, 3], [3, 1], 16, 1, 4, false);
expand_capacity!(c06_t_expand_2x3_axis0_to_4, [2, 3], [3, 1], 16, 0, 4, true);
