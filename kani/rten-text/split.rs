//! Kani harnesses for `rten_text::split` (property C29, chunking kernel).
use super::*;

/// `chunks_with_overlap` on a slice of 0..=N symbolic length with symbolic
/// chunk size and overlap (overlap < chunk size; otherwise the function's
/// documented assert fires): the chunks are contiguous windows of at most
/// `chunk_size` elements, the first starts at 0, each next one starts
/// `chunk_size - overlap` later (so consecutive windows overlap by exactly
/// `overlap`), only the last may be short, and the last one ends at the end of
/// the slice: together they cover every element, in order, and there is no
/// chunk without a new element.
macro_rules! chunks {
    ($name:ident, $n:expr, $unwind:expr, $max_overlap:expr) => {
        #[kani::proof]
        #[kani::unwind($unwind)]
        fn $name() {
            let data: [u8; $n] = [0; $n];
            let len: usize = kani::any();
            kani::assume(len <= $n);
            let chunk_size: usize = kani::any();
            let overlap: usize = kani::any();
            kani::assume(chunk_size >= 1 && chunk_size <= $n + 1);
            kani::assume(overlap < chunk_size && overlap <= $max_overlap);
            let stride = chunk_size - overlap;
            let slice = &data[..len];
            let base = slice.as_ptr() as usize;
            let mut it = slice.chunks_with_overlap(chunk_size, overlap);
            let mut expect_start = 0usize;
            let mut done = len == 0;
            let mut count = 0usize;
            let mut remainder_overlap_ok = true;
            let mut i = 0;
            while i <= $n {
                match it.next() {
                    Some(chunk) => {
                        assert!(!done, "chunk produced after the slice was fully covered");
                        let start = chunk.as_ptr() as usize - base;
                        assert!(start <= len);
                        if chunk.len() == chunk_size {
                            assert!(start == expect_start, "chunk does not start one stride after the previous one");
                        } else {
                            // Final partial chunk: whatever its overlap, it must
                            // not skip elements. Its exact overlap is asserted at
                            // the very end (known finding F6, see
                            // known_findings.json), after everything else, because
                            // a failed assertion cuts the path for later checks.
                            assert!(start <= expect_start + overlap, "final partial chunk skips elements");
                            remainder_overlap_ok &= start == expect_start;
                        }
                        let expect_len = if len - start < chunk_size { len - start } else { chunk_size };
                        assert!(chunk.len() == expect_len, "chunk has the wrong length");
                        assert!(chunk.len() >= 1 && chunk.len() <= chunk_size);
                        if start + chunk.len() == len {
                            done = true;
                        }
                        expect_start = start + stride;
                        count += 1;
                    }
                    None => {
                        assert!(done, "chunks ended before the slice was covered");
                    }
                }
                i += 1;
            }
            assert!(done);
            kani::cover!(count >= 3 && overlap >= $max_overlap.min(1), "three chunks");
            kani::cover!(count >= 2 && chunk_size > 1 && len % chunk_size != 0, "short final chunk");
            assert!(
                remainder_overlap_ok,
                "final partial chunk does not overlap the previous chunk by the requested amount"
            );
        }
    };
}
chunks!(c29_q_chunks_le_6, 6, 9, usize::MAX);
// Plain chunking (overlap 0): unaffected by known finding F6, must verify completely.
chunks!(c29_q_chunks_no_overlap_le_6, 6, 9, 0);
chunks!(c29_t_chunks_le_8, 8, 11, usize::MAX);

/// `subslice_offsets` returns the element range of a sub-slice.
#[kani::proof]
#[kani::unwind(4)]
fn c29_q_subslice_offsets() {
    let data: [u16; 6] = [0; 6];
    let a: usize = kani::any();
    let b: usize = kani::any();
    kani::assume(a <= b && b <= 6);
    let sub = &data[a..b];
    let r = data[..].subslice_offsets(sub);
    kani::cover!(a == 2 && b == 5, "inner subslice");
    assert!(r == Some(a..b));
}
