//! Kani harnesses for `rten_text::models::bpe` (property C27, byte <-> char
//! table only): the GPT-2 byte-to-character table is injective (so that
//! decoding can invert it), maps every byte to a printable, non-whitespace
//! character, and maps printable bytes to themselves.
use super::*;

#[kani::proof]
#[kani::unwind(258)]
fn c27_q_byte_to_char_injective() {
    let table = byte_to_char();
    let b1: u8 = kani::any();
    let b2: u8 = kani::any();
    kani::assume(b1 != b2);
    let c1 = table[b1 as usize];
    let c2 = table[b2 as usize];
    kani::cover!(b1 == 0 && b2 == 255, "extreme bytes");
    assert!(c1 != c2, "two bytes map to the same character");
    // Printable bytes map to themselves, others to code points >= 256.
    let ch = char::from(b1);
    if is_printable(ch) {
        assert!(c1 == ch);
    } else {
        assert!(c1 as u32 >= 256 && (c1 as u32) < 256 + 68 + 1);
    }
    // No byte is represented by a space, control or whitespace character
    // (tokens are split on whitespace by the pre-tokenizer patterns).
    assert!(c1 != ' ' && (c1 as u32) > 0x20 && (c1 as u32) != 0x7f);
}

#[kani::proof]
#[kani::unwind(4)]
fn c27_q_is_printable_ascii() {
    let b: u8 = kani::any();
    kani::assume(b < 128);
    let p = is_printable(char::from(b));
    kani::cover!(p, "printable");
    assert!(p == (b > 0x20 && b < 0x7f));
}

/// The table equals the GPT-2 `bytes_to_unicode` table, stated independently
/// of `is_printable`: bytes 33..=126, 161..=172 and 174..=255 stand for
/// themselves; every other byte b stands for U+0100 + (number of such bytes
/// below b).
#[kani::proof]
#[kani::unwind(258)]
fn c27_q_byte_to_char_matches_gpt2_table() {
    let table = byte_to_char();
    let b: u8 = kani::any();
    let stands_for_itself = |x: u8| (33..=126).contains(&x) || (161..=172).contains(&x) || x >= 174;
    let got = table[b as usize] as u32;
    if stands_for_itself(b) {
        kani::cover!(b == 0xae, "first byte after the soft hyphen");
        assert!(got == b as u32, "printable byte not mapped to itself");
    } else {
        // rank among the bytes that do not stand for themselves
        let mut rank = 0u32;
        let mut x = 0u16;
        while x < 256 {
            if (x as u8) < b && !stands_for_itself(x as u8) {
                rank += 1;
            }
            x += 1;
        }
        kani::cover!(b == 0xad, "soft hyphen");
        assert!(got == 256 + rank, "non-printable byte mapped to the wrong code point");
    }
}
