//! Kani harnesses for `rten_imageproc::drawing` (property C36, drawing
//! primitives): no pixel outside the image is ever touched (the bounds-checked
//! index would panic, which CBMC reports) and only pixels inside the shape's
//! bounds are modified, for symbolic i32 coordinates.
use super::*;
use rten_tensor::prelude::*;
use rten_tensor::NdTensor;

/// Width-1 lines with endpoints anywhere in i32 x i32 on an H x W image: every
/// modified pixel lies in the bounding box of the endpoints clamped to the
/// image, and drawing never indexes outside the image.
macro_rules! line_on_image {
    ($name:ident, $h:expr, $w:expr, $unwind:expr, $draws:expr) => {
        #[kani::proof]
        #[kani::unwind($unwind)]
        fn $name() {
            let mut img = NdTensor::<u8, 2>::zeros([$h, $w]);
            let (sy, sx, ey, ex): (i32, i32, i32, i32) = kani::any();
            let line = Line::from_endpoints(Point::from_yx(sy, sx), Point::from_yx(ey, ex));
            draw_line(img.view_mut(), line, 1u8, 1);
            kani::cover!(true, "drawing returned");
            let mut some_pixel_drawn = false;
            if $h > 0 && $w > 0 {
                let cy0 = sy.clamp(0, $h as i32 - 1);
                let cy1 = ey.clamp(0, $h as i32 - 1);
                let cx0 = sx.clamp(0, $w as i32 - 1);
                let cx1 = ex.clamp(0, $w as i32 - 1);
                let (ylo, yhi) = if cy0 <= cy1 { (cy0, cy1) } else { (cy1, cy0) };
                let (xlo, xhi) = if cx0 <= cx1 { (cx0, cx1) } else { (cx1, cx0) };
                let y: usize = kani::any();
                let x: usize = kani::any();
                kani::assume(y < $h && x < $w);
                some_pixel_drawn = img[[y, x]] != 0;
                if img[[y, x]] != 0 {
                    assert!(
                        (y as i32) >= ylo && (y as i32) <= yhi && (x as i32) >= xlo && (x as i32) <= xhi,
                        "line modified a pixel outside its bounding box"
                    );
                }
            }
            // (a line on a 0x0 or 1x1 image has equal clamped endpoints and draws nothing)
            kani::cover!(some_pixel_drawn || !$draws, "some pixel drawn");
        }
    };
}
line_on_image!(c36_q_draw_line_4x4, 4, 4, 18, true);
line_on_image!(c36_q_draw_line_2x3, 2, 3, 8, true);
line_on_image!(c36_q_draw_line_1x1, 1, 1, 4, false);
line_on_image!(c36_t_draw_line_0x0, 0, 0, 4, false);
line_on_image!(c36_t_draw_line_5x3, 5, 3, 17, true);

/// Bresenham point iterator on small symbolic lines: yields exactly
/// max(|dx|,|dy|) points, starting at the start point, each one a king's move
/// away from the previous one and inside the bounding box of the endpoints.
#[kani::proof]
#[kani::unwind(8)]
fn c36_q_bresham_points() {
    let (sy, sx, ey, ex): (i32, i32, i32, i32) = kani::any();
    kani::assume(sy >= -3 && sy <= 3 && sx >= -3 && sx <= 3);
    kani::assume(ey >= -3 && ey <= 3 && ex >= -3 && ex <= 3);
    let line = Line::from_endpoints(Point::from_yx(sy, sx), Point::from_yx(ey, ex));
    let dx = (ex - sx).abs();
    let dy = (ey - sy).abs();
    let n = if dx > dy { dx } else { dy };
    let mut it = BreshamPoints::new(line);
    let mut prev: Option<Point> = None;
    let mut count = 0;
    let mut i = 0;
    while i < 7 {
        match it.next() {
            Some(p) => {
                count += 1;
                match prev {
                    None => assert!(p.y == sy && p.x == sx, "first point is not the start point"),
                    Some(q) => {
                        assert!((p.y - q.y).abs() <= 1 && (p.x - q.x).abs() <= 1, "points not adjacent");
                        assert!(p.y != q.y || p.x != q.x, "point repeated");
                    }
                }
                let (ylo, yhi) = if sy <= ey { (sy, ey) } else { (ey, sy) };
                let (xlo, xhi) = if sx <= ex { (sx, ex) } else { (ex, sx) };
                assert!(p.y >= ylo && p.y <= yhi && p.x >= xlo && p.x <= xhi, "point outside the bounding box");
                prev = Some(p);
            }
            None => {}
        }
        i += 1;
    }
    kani::cover!(count == 6, "longest line");
    assert!(count == n, "wrong number of points");
}

/// fill_rect with a rectangle inside the image: exactly the pixels of the
/// rectangle are set.
macro_rules! fill_rect_inside {
    ($name:ident, $n:expr, $unwind:expr) => {
        #[kani::proof]
        #[kani::unwind($unwind)]
        fn $name() {
            let mut img = NdTensor::<u8, 2>::zeros([$n, $n]);
            let (t, l, b, r): (i32, i32, i32, i32) = kani::any();
            kani::assume(t >= 0 && l >= 0 && b <= $n && r <= $n);
            fill_rect(img.view_mut(), Rect::from_tlbr(t, l, b, r), 7u8);
            let y: usize = kani::any();
            let x: usize = kani::any();
            kani::assume(y < $n && x < $n);
            let inside = (y as i32) >= t && (y as i32) < b && (x as i32) >= l && (x as i32) < r;
            kani::cover!(inside, "pixel inside");
            assert!((img[[y, x]] == 7) == inside, "fill_rect set the wrong pixels");
        }
    };
}
fill_rect_inside!(c36_q_fill_rect_inside_3x3, 3, 11);
fill_rect_inside!(c36_t_fill_rect_inside_4x4, 4, 18);

/// stroke_rect with a rectangle inside the image and a border that fits
/// (documented: "the bounding box of the outermost pixels will be `rect`"):
/// exactly the border ring of the rectangle is drawn.
macro_rules! stroke_rect_inside {
    ($name:ident, $n:expr, $maxw:expr, $unwind:expr) => {
        #[kani::proof]
        #[kani::unwind($unwind)]
        fn $name() {
            let mut img = NdTensor::<u8, 2>::zeros([$n, $n]);
            let (t, l, b, r): (i32, i32, i32, i32) = kani::any();
            kani::assume(t >= 0 && l >= 0 && b <= $n && r <= $n && t <= b && l <= r);
            let width: u32 = kani::any();
            kani::assume(width >= 1 && width <= $maxw);
            kani::assume((width as i32) * 2 <= b - t && (width as i32) * 2 <= r - l);
            stroke_rect(img.view_mut(), Rect::from_tlbr(t, l, b, r), 9u8, width);
            let y: usize = kani::any();
            let x: usize = kani::any();
            kani::assume(y < $n && x < $n);
            let (yi, xi) = (y as i32, x as i32);
            let inside = yi >= t && yi < b && xi >= l && xi < r;
            let w = width as i32;
            let on_border = inside && (yi < t + w || yi >= b - w || xi < l + w || xi >= r - w);
            kani::cover!(on_border, "border pixel");
            assert!((img[[y, x]] == 9) == on_border, "stroke_rect set the wrong pixels");
        }
    };
}
stroke_rect_inside!(c36_t_stroke_rect_inside_3x3, 3, 1, 11);

/// Cheap quick-tier variant of the stroke_rect check: 3x4 image, width 1,
/// rectangle with symbolic top-left corner and fixed bottom-right corner (3,4)
/// (non-square on purpose: top != left and bottom != right are reachable).
#[kani::proof]
#[kani::unwind(14)]
fn c36_q_stroke_rect_3x4_corner() {
    let mut img = NdTensor::<u8, 2>::zeros([3, 4]);
    let (t, l): (i32, i32) = kani::any();
    kani::assume(t >= 0 && t <= 1 && l >= 0 && l <= 2);
    let (b, r) = (3, 4);
    stroke_rect(img.view_mut(), Rect::from_tlbr(t, l, b, r), 9u8, 1);
    let y: usize = kani::any();
    let x: usize = kani::any();
    kani::assume(y < 3 && x < 4);
    let (yi, xi) = (y as i32, x as i32);
    let inside = yi >= t && yi < b && xi >= l && xi < r;
    let on_border = inside && (yi < t + 1 || yi >= b - 1 || xi < l + 1 || xi >= r - 1);
    kani::cover!(inside && !on_border, "interior pixel");
    assert!((img[[y, x]] == 9) == on_border, "stroke_rect set the wrong pixels");
}

// ---------------------------------------------------------------------------
// PROBES, not checks: the `c36_p_*` harnesses below are not run by the driver
// (it only runs `c36_q_*` / `c36_t_*`). Neither form got a verdict from CBMC
// within 15 min / 4.9 GB, even on a 1x2 mask; see DESIGN.md, C36.
// ---------------------------------------------------------------------------

/// `find_contours` on every H x W boolean mask (all 2^(H*W) masks are one
/// symbolic input): tracing never indexes outside the padded working copy (the
/// bounds-checked index would panic), every contour is non-empty, every traced
/// point lies inside the image on a foreground pixel (on images this small
/// every pixel touches the image edge, so "adjacent to the background or the
/// image edge" holds for every foreground pixel), and there is at least one
/// contour exactly when the mask has a foreground pixel. On these sizes all
/// foreground pixels are 8-connected when H <= 2 and W <= 2, so External mode
/// must return exactly one contour there.
macro_rules! contours_on_mask {
    ($name:ident, $h:expr, $w:expr, $mode:expr, $unwind:expr, $single:expr) => {
        #[kani::proof]
        #[kani::unwind($unwind)]
        fn $name() {
            let bits: [[bool; $w]; $h] = kani::any();
            let mut mask = NdTensor::<bool, 2>::zeros([$h, $w]);
            let mut any_fg = false;
            let mut y = 0;
            while y < $h {
                let mut x = 0;
                while x < $w {
                    mask[[y, x]] = bits[y][x];
                    any_fg |= bits[y][x];
                    x += 1;
                }
                y += 1;
            }
            let contours = crate::find_contours(mask.view(), $mode);
            kani::cover!(any_fg, "mask with foreground");
            let n = contours.len();
            assert!((n >= 1) == any_fg, "foreground component without contour, or contour without foreground");
            if $single {
                assert!(n <= 1, "one 8-connected component traced more than once");
            }
            assert!(n <= $h * $w);
            // An arbitrary point of an arbitrary contour.
            let ci: usize = kani::any();
            kani::assume(ci < n);
            let mut it = contours.iter();
            let mut k = 0;
            let mut poly: &[Point] = &[];
            while k <= ci && k < $h * $w {
                poly = it.next().unwrap();
                k += 1;
            }
            assert!(!poly.is_empty(), "empty contour");
            assert!(poly.len() <= 2 * $h * $w, "contour longer than twice the pixel count");
            let pi: usize = kani::any();
            kani::assume(pi < poly.len());
            let p = poly[pi];
            assert!(p.y >= 0 && (p.y as usize) < $h && p.x >= 0 && (p.x as usize) < $w, "contour point outside the image");
            assert!(bits[p.y as usize][p.x as usize], "contour point on a background pixel");
            std::mem::forget(contours);
        }
    };
}

/// Count-only variant: for every H x W mask `find_contours` returns (no index
/// panic, tracing terminates within the unwinding bound) and the number of
/// contours equals the number of 8-connected foreground components, given in
/// closed form by `$components` (masks this small cannot contain holes, so the
/// count is the same in both retrieval modes).
macro_rules! contour_count {
    ($name:ident, $h:expr, $w:expr, $mode:expr, $unwind:expr, $components:expr) => {
        #[kani::proof]
        #[kani::unwind($unwind)]
        fn $name() {
            let bits: [[bool; $w]; $h] = kani::any();
            let mut mask = NdTensor::<bool, 2>::zeros([$h, $w]);
            let mut y = 0;
            while y < $h {
                let mut x = 0;
                while x < $w {
                    mask[[y, x]] = bits[y][x];
                    x += 1;
                }
                y += 1;
            }
            let contours = crate::find_contours(mask.view(), $mode);
            let expect: usize = ($components)(&bits);
            kani::cover!(expect >= 1, "mask with foreground");
            assert!(contours.len() == expect, "number of contours differs from the number of 8-connected components");
            std::mem::forget(contours);
        }
    };
}
contour_count!(c36_p_count_external_1x2, 1, 2, crate::RetrievalMode::External, 14,
    |b: &[[bool; 2]; 1]| (b[0][0] || b[0][1]) as usize);
contour_count!(c36_p_count_external_2x2, 2, 2, crate::RetrievalMode::External, 18,
    |b: &[[bool; 2]; 2]| (b[0][0] || b[0][1] || b[1][0] || b[1][1]) as usize);
contour_count!(c36_p_count_list_2x3, 2, 3, crate::RetrievalMode::List, 22,
    |b: &[[bool; 3]; 2]| if b[0][1] || b[1][1] { 1 } else { (b[0][0] || b[1][0]) as usize + (b[0][2] || b[1][2]) as usize });
// Form (i) (count + an arbitrary traced point): stopped after 11 min at 4.7 GB per harness.
contours_on_mask!(c36_p_contours_external_1x2, 1, 2, crate::RetrievalMode::External, 14, true);
contours_on_mask!(c36_p_contours_external_2x2, 2, 2, crate::RetrievalMode::External, 18, true);
contours_on_mask!(c36_p_contours_list_2x2, 2, 2, crate::RetrievalMode::List, 18, false);
