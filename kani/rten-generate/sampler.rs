//! Kani harnesses for `rten_generate::sampler` (property C33).
use super::*;

/// ArgMax over sparse logits (symbolic scores without NaN, symbolic ids):
/// returns the id of a maximal score (the first one on ties).
macro_rules! argmax {
    ($name:ident, $n:expr, $unwind:expr) => {
        #[kani::proof]
        #[kani::unwind($unwind)]
        fn $name() {
            let vals: [f32; $n] = kani::any();
            let ids: [TokenId; $n] = kani::any();
            let mut i = 0;
            while i < $n {
                kani::assume(!vals[i].is_nan());
                i += 1;
            }
            let logits = Logits::sparse(vals.to_vec(), ids.to_vec());
            let got = ArgMax::new().sample(&logits);
            // Some position holds the returned id and a maximal score.
            let mut ok = false;
            let mut j = 0;
            while j < $n {
                let mut is_max = true;
                let mut i = 0;
                while i < $n {
                    is_max &= vals[j] >= vals[i];
                    i += 1;
                }
                ok |= ids[j] == got && is_max;
                j += 1;
            }
            kani::cover!($n == 1 || vals[$n - 1] > vals[0], "maximum not at the front");
            assert!(ok, "arg-max sampler returned an id whose score is not maximal");
            std::mem::forget(logits);
        }
    };
}
argmax!(c33_q_argmax_n3, 3, 6);
argmax!(c33_q_argmax_n1, 1, 4);
argmax!(c33_t_argmax_n5, 5, 8);

/// `multinomial` with the real `fastrand::Rng` seeded symbolically: whatever
/// the seed (i.e. whatever the draw), the returned index has a non-zero
/// probability. Probabilities are symbolic in [0, 1].
macro_rules! multinomial_nonzero {
    ($name:ident, $n:expr, $unwind:expr) => {
        #[kani::proof]
        #[kani::unwind($unwind)]
        fn $name() {
            let probs: [f32; $n] = kani::any();
            let mut i = 0;
            while i < $n {
                kani::assume(probs[i] >= 0.0 && probs[i] <= 1.0);
                i += 1;
            }
            let seed: u64 = kani::any();
            let mut rng = fastrand::Rng::with_seed(seed);
            let got = multinomial(&mut rng, &probs);
            kani::cover!(got == Some($n - 1), "last candidate sampled");
            if let Some(idx) = got {
                assert!(idx < $n);
                assert!(probs[idx] > 0.0, "sampled a candidate with zero probability");
            }
        }
    };
}
multinomial_nonzero!(c33_q_multinomial_n2, 2, 4);
multinomial_nonzero!(c33_t_multinomial_n4, 4, 6);

/// Same seed, same inputs => same draw (the sampler has no hidden state).
#[kani::proof]
#[kani::unwind(4)]
fn c33_q_multinomial_seed_deterministic() {
    let probs: [f32; 2] = kani::any();
    kani::assume(probs[0] >= 0.0 && probs[0] <= 1.0 && probs[1] >= 0.0 && probs[1] <= 1.0);
    let seed: u64 = kani::any();
    let mut r1 = fastrand::Rng::with_seed(seed);
    let mut r2 = fastrand::Rng::with_seed(seed);
    let a = multinomial(&mut r1, &probs);
    let b = multinomial(&mut r2, &probs);
    kani::cover!(a.is_some(), "sampled");
    assert!(a == b);
}

/// Exact specification of `multinomial`: with `t` the generator's first draw for
/// the seed, the result is the smallest index whose running f32 sum (left to
/// right) exceeds `t`, or None if there is none.
#[kani::proof]
#[kani::unwind(6)]
fn c33_q_multinomial_matches_reference_n3() {
    let probs: [f32; 3] = kani::any();
    let mut i = 0;
    while i < 3 {
        kani::assume(probs[i] >= 0.0 && probs[i] <= 1.0);
        i += 1;
    }
    let seed: u64 = kani::any();
    let mut rng = fastrand::Rng::with_seed(seed);
    let mut rng_ref = fastrand::Rng::with_seed(seed);
    let got = multinomial(&mut rng, &probs);
    let t = rng_ref.f32();
    assert!(t >= 0.0 && t < 1.0);
    let mut expect: Option<usize> = None;
    let mut cum = 0.0f32;
    let mut k = 0;
    while k < 3 {
        cum += probs[k];
        if expect.is_none() && t < cum {
            expect = Some(k);
        }
        k += 1;
    }
    kani::cover!(expect == Some(1), "middle candidate sampled");
    kani::cover!(expect.is_none(), "draw beyond the probability mass");
    assert!(got == expect, "multinomial differs from its specification");
}
