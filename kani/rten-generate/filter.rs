//! Kani harnesses for `rten_generate::filter` (property C31) on the generic
//! (portable) SIMD instruction set: under `cfg(kani)` `rten_simd::dispatch`
//! goes straight to `GenericIsa` (CPU-feature detection is inline asm).
//!
//! (n, k) are concrete per harness; the logits are symbolic f32 bit patterns.
use super::*;
use std::cmp::Ordering;

/// "Ordinary" scores: no NaN and no negative zero, so that `>` / `<` agree with
/// the IEEE total order that the contract is stated in.
fn ordinary(x: f32) -> bool {
    !x.is_nan() && x.to_bits() != 0x8000_0000
}

/// Oracle for a top-k result over dense logits `vals` (token id == position).
fn check_topk<const N: usize>(vals: [f32; N], k: usize, out: &Logits) {
    let expect_len = if k < N { k } else { N };
    assert!(out.len() == expect_len, "top-k kept the wrong number of candidates");
    assert!(out.indices().len() == out.logits().len());
    let ids = out.indices();
    let scores = out.logits();
    let mut kept = [false; N];
    let mut j = 0;
    while j < N {
        if j < expect_len {
            let id = ids[j] as usize;
            assert!(id < N, "top-k produced an unknown token id");
            assert!(!kept[id], "top-k produced a token twice");
            kept[id] = true;
            assert!(scores[j].to_bits() == vals[id].to_bits(), "top-k changed a score");
            if j > 0 {
                assert!(
                    scores[j - 1].total_cmp(&scores[j]) != Ordering::Less,
                    "top-k output not sorted in descending order"
                );
            }
        }
        j += 1;
    }
    // Every dropped score is <= every kept score (total order).
    let mut i = 0;
    while i < N {
        let mut j = 0;
        while j < N {
            if !kept[i] && kept[j] {
                assert!(
                    vals[i].total_cmp(&vals[j]) != Ordering::Greater,
                    "top-k dropped a score larger than one it kept"
                );
            }
            j += 1;
        }
        i += 1;
    }
}

macro_rules! topk_ordinary {
    ($name:ident, $n:expr, $k:expr, $unwind:expr) => {
        #[kani::proof]
        #[kani::unwind($unwind)]
        fn $name() {
            let vals: [f32; $n] = kani::any();
            let mut i = 0;
            while i < $n {
                kani::assume(ordinary(vals[i]));
                i += 1;
            }
            let out = TopK::new($k).filter(Logits::dense(vals.to_vec()), &[]);
            kani::cover!(true, "filter returned");
            check_topk(vals, $k, &out);
            std::mem::forget(out);
        }
    };
}
// k < n, k == n, k > n, k == 0, n == 0
topk_ordinary!(c31_q_topk_n3_k2, 3, 2, 8);
topk_ordinary!(c31_q_topk_n3_k3, 3, 3, 8);
topk_ordinary!(c31_q_topk_n2_k3, 2, 3, 8);
topk_ordinary!(c31_q_topk_n3_k0, 3, 0, 8);
topk_ordinary!(c31_q_topk_n0_k2, 0, 2, 8);
topk_ordinary!(c31_q_topk_n4_k1, 4, 1, 8);
topk_ordinary!(c31_q_topk_n4_k2, 4, 2, 8);
topk_ordinary!(c31_q_topk_n1_k4, 1, 4, 8);
// n > k + 4 reaches the vector body of SimdTopK on GenericIsa (4 f32 lanes)
topk_ordinary!(c31_q_topk_n6_k1, 6, 1, 10);
topk_ordinary!(c31_q_topk_n7_k2, 7, 2, 10);
topk_ordinary!(c31_t_topk_n8_k3, 8, 3, 12);
topk_ordinary!(c31_t_topk_n9_k1, 9, 1, 12);
topk_ordinary!(c31_t_topk_n5_k4, 5, 4, 10);

/// Sparse candidates (token ids are not positions, e.g. after an earlier filter
/// in a chain): ids are symbolic and pairwise distinct; the (id, score) pairs
/// of the output must be pairs of the input.
macro_rules! topk_sparse {
    ($name:ident, $n:expr, $k:expr, $unwind:expr) => {
        #[kani::proof]
        #[kani::unwind($unwind)]
        fn $name() {
            let vals: [f32; $n] = kani::any();
            let ids: [u32; $n] = kani::any();
            let mut i = 0;
            while i < $n {
                kani::assume(ordinary(vals[i]));
                let mut j = i + 1;
                while j < $n {
                    kani::assume(ids[i] != ids[j]);
                    j += 1;
                }
                i += 1;
            }
            let out = TopK::new($k).filter(Logits::sparse(vals.to_vec(), ids.to_vec()), &[]);
            // Map ids back to positions and reuse the dense oracle.
            let m = out.len();
            let mut pos_ids = [0u32; $n];
            let mut j = 0;
            while j < $n {
                if j < m {
                    let mut found = false;
                    let mut p = 0;
                    while p < $n {
                        if ids[p] == out.indices()[j] {
                            found = true;
                            pos_ids[j] = p as u32;
                        }
                        p += 1;
                    }
                    assert!(found, "top-k produced a token id that is not a candidate");
                }
                j += 1;
            }
            kani::cover!(m > 0 && out.indices()[m - 1] == ids[$n - 1], "last candidate kept");
            let (scores, _) = out.into_logits_indices();
            let mapped = Logits::sparse(scores, pos_ids[..m].to_vec());
            check_topk(vals, $k, &mapped);
            std::mem::forget(mapped);
        }
    };
}
topk_sparse!(c31_q_topk_sparse_n4_k3, 4, 3, 8);
topk_sparse!(c31_q_topk_sparse_n3_k1, 3, 1, 8);
topk_sparse!(c31_q_topk_sparse_n6_k1, 6, 1, 10);
topk_sparse!(c31_t_topk_sparse_n7_k2, 7, 2, 10);

/// Same contract over *all* f32 bit patterns (NaNs of both signs, -0.0): the
/// statement asks for the IEEE total order. See known_findings.json.
macro_rules! topk_all_bits {
    ($name:ident, $n:expr, $k:expr, $unwind:expr) => {
        #[kani::proof]
        #[kani::unwind($unwind)]
        fn $name() {
            let vals: [f32; $n] = kani::any();
            let out = TopK::new($k).filter(Logits::dense(vals.to_vec()), &[]);
            kani::cover!(vals[0].is_nan(), "NaN input reachable");
            check_topk(vals, $k, &out);
            std::mem::forget(out);
        }
    };
}
topk_all_bits!(c31_q_topk_allbits_n3_k1, 3, 1, 8);
topk_all_bits!(c31_t_topk_allbits_n3_k2, 3, 2, 8);

/// Top-P on probabilities (normalize(false)): the result is a descending
/// sorted selection of the input pairs, no dropped probability exceeds a kept
/// one, it is the *shortest* prefix whose running f32 sum reaches
/// max(p, MIN_POSITIVE) (or everything if the sum never gets there), and it is
/// non-empty for non-empty input.
macro_rules! topp {
    ($name:ident, $n:expr, $unwind:expr) => {
        #[kani::proof]
        #[kani::unwind($unwind)]
        fn $name() {
            let vals: [f32; $n] = kani::any();
            let mut i = 0;
            while i < $n {
                kani::assume(vals[i] >= 0.0 && vals[i] <= 1.0 && vals[i].to_bits() != 0x8000_0000);
                i += 1;
            }
            let p: f32 = kani::any();
            kani::assume(p >= 0.0 && p <= 1.0);
            let out = TopP::new(p).normalize(false).filter(Logits::dense(vals.to_vec()), &[]);
            kani::cover!(out.len() == if $n < 2 { $n } else { 2 }, "two candidates kept (or all, if fewer)");
            if p == 1.0 {
                // Documented pass-through.
                assert!(out.len() == $n);
            } else {
                let m = out.len();
                assert!(m <= $n);
                if $n > 0 {
                    assert!(m >= 1, "top-p returned an empty set");
                }
                let ids = out.indices();
                let scores = out.logits();
                let threshold = if p > f32::MIN_POSITIVE { p } else { f32::MIN_POSITIVE };
                let mut kept = [false; $n];
                let mut sum = 0.0f32;
                let mut sum_before_last = 0.0f32;
                let mut j = 0;
                while j < $n {
                    if j < m {
                        let id = ids[j] as usize;
                        assert!(id < $n && !kept[id]);
                        kept[id] = true;
                        assert!(scores[j].to_bits() == vals[id].to_bits());
                        if j > 0 {
                            assert!(scores[j - 1] >= scores[j], "top-p output not sorted");
                        }
                        sum_before_last = sum;
                        sum += scores[j];
                    }
                    j += 1;
                }
                let mut i = 0;
                while i < $n {
                    let mut j = 0;
                    while j < $n {
                        if !kept[i] && kept[j] {
                            assert!(vals[i] <= vals[j], "top-p dropped a probability larger than one it kept");
                        }
                        j += 1;
                    }
                    i += 1;
                }
                if m > 0 {
                    assert!(sum_before_last < threshold, "top-p kept more than the shortest prefix");
                    assert!(sum >= threshold || m == $n, "top-p stopped before reaching the threshold");
                }
            }
            std::mem::forget(out);
        }
    };
}
topp!(c31_q_topp_n3, 3, 8);
topp!(c31_q_topp_n1, 1, 6);

/// Top-P on an empty candidate set (everything filtered out earlier in a
/// chain) returns an empty set and does not panic.
#[kani::proof]
#[kani::unwind(4)]
fn c31_q_topp_empty() {
    let p: f32 = kani::any();
    kani::assume(p >= 0.0 && p <= 1.0);
    let out = TopP::new(p).normalize(false).filter(Logits::dense(Vec::new()), &[]);
    kani::cover!(p < 1.0, "threshold below one");
    assert!(out.len() == 0);
    std::mem::forget(out);
}
topp!(c31_t_topp_n4, 4, 8);

// (A harness chaining TopP -> TopK on a symbolic-length intermediate result did
// not finish in 30 min: the symbolic Vec length flowing into TopK's sort is what
// explodes. `Chain::filter` is a three-line fold over its filters, so "chained
// filters behave as their composition" is argued from the code; the case that
// matters -- a later filter seeing fewer candidates than its K -- is decided by
// the k > n instances above (dense and sparse).)
