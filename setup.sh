#!/bin/sh
# Offline setup: nothing to build ahead of time (cargo kani compiles the
# harnesses from /repo's working tree on every check). Just verify the tools.
set -e
cd "$(dirname "$0")"
export CARGO_NET_OFFLINE=true
cargo kani --version
cbmc --version
python3 -c "import json,sys; json.load(open('MANIFEST.json')); print('manifest ok')"
mkdir -p .cache evidence
