#!/usr/bin/env python3
"""Regenerate MANIFEST.json from registry.py (claimed properties) and
not_applicable.json (unclaimed properties with reasons)."""
import json, os, subprocess, sys
HERE = os.path.dirname(os.path.abspath(__file__))
sys.path.insert(0, HERE)
import registry

hooks_commits = subprocess.run(
    ["git", "-C", "/repo", "log", "--format=%h %s", "--grep", "^verif hooks"],
    stdout=subprocess.PIPE, text=True).stdout.strip().splitlines()
checks = []
for pid in sorted(registry.PROPS):
    p = registry.PROPS[pid]
    checks.append(dict(
        property_id=pid,
        quick_cmd="./check %s --tier quick" % pid,
        thorough_cmd="./check %s --tier thorough" % pid,
        evidence_file="/verif/evidence/%s.json" % pid,
        replay_cmd_template="./check --replay {path}",
        engine="kani",
        level_claimed=dict(
            category="model_checking",
            text=("Bounded model checking (Kani 0.68 / CBMC 6.11 / CaDiCaL) of the real compiled code: " + p["explanation"]
                  + " Holds for every input inside the stated bound; nothing is claimed outside it. Bounds: " + p["bounds"]),
            design_ref="DESIGN.md sections 3 (plan), 7 (driver) and 11 (as built), " + pid,
        ),
        level_note=("Trusted: Kani's MIR->goto translation and std models, CBMC, CaDiCaL, the hand-written oracles in "
                    "/verif/kani. Outside the claim: " + p["outside"] + ". Assumptions: " + "; ".join(p["assumptions"])),
        technique="SMT/SAT-based bounded model checking of the compiled Rust code (Kani/CBMC harnesses, kani::any inputs, unwinding assertions on)",
    ))
na = json.load(open(os.path.join(HERE, "not_applicable.json")))
na = [x for x in na if x["property_id"] not in registry.PROPS]
manifest = dict(
    version=1,
    setup_cmd="./setup.sh",
    hooks=dict(
        guard="cfg(kani)",
        enable=("cargo kani sets --cfg kani; each hooked source file ends with "
                "`#[cfg(kani)] #[path = \"/verif/kani/<crate>/<file>.rs\"] mod verif_kani;` and the touched crates declare "
                "the cfg in [lints.rust] check-cfg"),
        baseline_off_cmd="cd /repo && cargo test --workspace --no-fail-fast --offline",
        source_commits=[c.split()[0] for c in hooks_commits],
        add_only=True,
    ),
    engines=[dict(name="kani", path="/verif/check", serves_properties=sorted(registry.PROPS),
                  kind_free_text="Kani 0.68.0 proof harnesses compiled into the real crates; CBMC 6.11.0 + CaDiCaL decide them")],
    checks=checks,
    notes=("Exit 0 = all harnesses verified; exit 1 + VIOLATION line = a counterexample that replays natively; exit 2 = "
           "inconclusive (timeout, out of memory, vacuous harness, non-reproducing counterexample). known_findings.json "
           "lists findings; fixed entries suppress nothing."),
    not_applicable=na,
)
json.dump(manifest, open(os.path.join(HERE, "MANIFEST.json"), "w"), indent=1)
print("claimed:", sorted(registry.PROPS), "n/a:", len(na))
