"""Per-property metadata for ./check: which crates hold the harnesses of a
property, and what the claim covers (functions encoded, bounds, what lies
outside them, assumptions). The harness lists themselves are not written here:
they are discovered from /verif/kani/<crate>/*.rs by name (`<id>_q_*` quick,
`<id>_t_*` thorough only)."""

TRUSTED_BASE = [
    "Kani 0.68.0 MIR->goto translation and its models of alloc/Vec/slices/Cursor",
    "CBMC 6.11.0 symbolic execution + CaDiCaL SAT back end",
    "rustc nightly-2026-08-21 front end (Kani's pinned toolchain)",
    "Kani forces overflow-checks=on: a verified harness has no reachable arithmetic overflow, "
    "so dev-profile and release-profile semantics coincide on the encoded paths (debug_assert! excepted)",
    "harness oracles in /verif/kani (reviewed by hand; each has kani::cover! reachability witnesses)",
]

PROPS = {}


def prop(pid, **kw):
    PROPS[pid] = kw


prop(
    "C08",
    memory_safety=True,
    title="The overlap check never admits aliasing layouts",
    groups=[dict(crate="rten-tensor", prefix="c08", jobs=10, timeout_quick=1200, timeout_thorough=3600)],
    functions=[
        "rten_tensor::overlap::may_have_internal_overlap",
        "rten_tensor::overlap::is_contiguous",
        "rten_tensor::layout::NdLayout::<N>::from_shape_and_strides (DisallowOverlap), N=1..4",
        "rten_tensor::layout::is_valid_permutation",
        "rten_tensor::tensor::TensorBase::<Vec<u8>, NdLayout<2>>::{has_capacity, expanded_layout} (capacity expansion)",
    ],
    bounds=("soundness: concrete shape family (ranks 1-3 quick, +rank 4 thorough; sizes 1..4; 4x4x4 and 3x2x3x2 exceeded 1 h and were dropped), strides fully "
            "symbolic 64-bit, both indices symbolic; emptiness: shapes with a 0 dim, strides symbolic; "
            "completeness: contiguous parent of concrete shape, child sizes concrete, per-axis step symbolic 1..7 "
            "(window inside parent), every axis permutation; huge concrete shapes (element counts >= 2^64, e.g. [2,2^63,2], "
            "[2^32,2^32], [usize::MAX]) with symbolic strides and the corner indices {0,1,size-2,size-1} of each axis; "
            "capacity expansion of contiguous 2x2/2x3/1x4 owned tensors with spare capacity (axis and new size "
            "concrete per harness, both grown-layout indices symbolic); unwind 10-20"),
    outside=("ranks > 4, sizes > 4 (rank<=3) / > 3 (rank 4), DynLayout's SmallVec path (same generic function, "
             "instantiated for [usize;N] here), reshape-derived layouts (reshape of a contiguous layout is "
             "contiguous, covered by the step=1 case), TensorBase::expanded_layout (calls the same function)"),
    assumptions=[
        "shape family is a case split chosen by the harness macros, not the deciding step; the solver "
        "quantifies over all strides and index pairs for each shape",
        "exact offsets are computed by the oracle in u128 with multiplication by a small index expressed as a case split",
    ],
    explanation=("Bounded model checking of the real overlap check: for each concrete shape CBMC proves that "
                 "no 64-bit stride vector accepted by the check lets two distinct valid indices share an offset "
                 "or lets the largest offset exceed usize::MAX, and that sliced+permuted contiguous layouts are accepted."),
)

prop(
    "C05",
    memory_safety=True,
    title="Loading untrusted model bytes is safe, bounded and well-formed",
    groups=[
        dict(crate="rten-model-file", prefix="c05", jobs=4),
        dict(crate="rten", prefix="c05", jobs=8, timeout_quick=1200, timeout_thorough=7200, kani_args=["-Z", "stubbing"]),
    ],
    functions=[
        "rten_model_file::header::Header::from_buf / to_buf",
        "rten::model::rten_loader::constant_data_from_storage_offset::<u8|i32> (rank 1-2)",
        "rten::model::rten_loader::constant_data_from_flatbuffers_vec::<u8> (rank 1-2)",
        "rten::model::onnx_loader::tensor_from_elements::<i32>, tensor_from_bytes::<i32> (rank 2)",
        "shared: TensorBase::try_from_data / Layout::min_data_len (C06), the protobuf readers (C38)",
    ],
    bounds=("header: files of 0..48 symbolic bytes (from_buf reads only the first 32); .rten constants: 16-byte file buffer, "
            "shape of rank 1-2 and byte offset fully symbolic 64-bit; inline constants: 4-element FlatBuffers vector, shape "
            "of rank 1-2 fully symbolic; ONNX initializers: data of 0..4 i32 / 0..8 bytes, rank-2 shape fully symbolic; "
            "unwind 6-34"),
    outside=("the FlatBuffers verifier (third party), ONNX/rten graph construction (hash maps, strings), mmap, constants of "
             "rank > 2 (each further dim adds one symbolic product), element types other than u8/i32"),
    assumptions=["the claim for whole-file loading = these leaf checks + C06 (constructors) + C38 (protobuf); the composition is argued",
                 "stub: alloc::fmt::format returns an empty String in the two ONNX initializer harnesses (error-message formatting is not the subject)"],
    explanation=("Bounded model checking of the places where untrusted sizes enter: the .rten header, constant "
                 "shape/offset arithmetic of both loaders, and the tensor constructors they end in."),
)

prop(
    "C06",
    memory_safety=True,
    title="Safe tensor APIs never access memory out of bounds or alias mutably",
    groups=[dict(crate="rten-tensor", prefix="c06", jobs=12, timeout_quick=1200, timeout_thorough=3600)],
    functions=[
        "TensorBase::try_from_data (NdLayout<1..3>, DynLayout rank 2)",
        "TensorBase::from_slice_with_strides / from_data_with_strides / from_storage_and_layout",
        "Layout::min_data_len, NdLayout::from_shape / contiguous_strides, DynLayout::from_shape, NdLayout::offset, DynLayout::offset",
        "Index / IndexMut / get / get_mut (bounds check + Storage::get_unchecked*)",
        "TensorBase::try_slice / transposed / split_at_mut / index_axis / try_broadcast, has_capacity / expanded_layout",
        "overlap::may_have_internal_overlap (through the DisallowOverlap constructors)",
    ],
    bounds=("try_from_data: shape fully symbolic 64-bit for ranks 1-2 (rank 3 with one concrete dim, thorough), storage of "
            "0..=8 symbolic bytes; strided constructors: concrete shape family (ranks 1-3, sizes <= 4), strides symbolic "
            "full 64-bit, storage 0..=16 bytes, index/indices symbolic; derived views: parent [3,4]/[2,3] u8, slice "
            "items symbolic in [-6,6] incl. negative and stepped ranges, split axis/mid symbolic; unwind 6-10"),
    outside=("element types other than u8 (layout code is element-type independent: assumed), ranks > 3, SmallVec spill "
             "(> 8 dims), chains of more than two view operations, iterators (C07), copying operations (C09)"),
    assumptions=[
        "out-of-range index components passed to DynLayout get() are < 2^16 (a larger one overflows idx*stride: "
        "dev-profile panic, None in release; not a memory-safety matter)",
        "from_storage_and_layout: documented precondition min_data_len <= storage length is assumed (it asserts it)",
        "split_at_mut/index_axis harnesses bound strides to <= 16 (larger strides are rejected by the 16-byte storage anyway)",
    ],
    explanation=("Bounded model checking of the safe constructors and view operations: CBMC pointer checks plus the "
                 "live debug_assert in Storage::get_unchecked* decide every dereference, and explicit address assertions "
                 "decide in-bounds and non-aliasing for all strides/indices in the bound."),
)

prop(
    "C07",
    memory_safety=True,
    title="Tensor iterators yield exactly the logical elements in order",
    groups=[dict(crate="rten-tensor", prefix="c07", jobs=14, timeout_quick=900, timeout_thorough=7200)],
    functions=[
        "iterators::IterPos::{from_size_stride, step, index, set_index, size}",
        "iterators::OffsetsBase::{next, next_back, step_by, fold, split_at, truncate, offset_from_linear_index, step_outer_pos}",
        "iterators::Offsets::{new (Range fast path), next, nth, next_back, split_at}",
        "iterators::{Lane, LaneMut}::{next, next_back, nth, len}",
        "iterators::{AxisIter, AxisIterMut}::{next, next_back, nth, len, size_hint, split_at} over [3,2] / [4,2] / [3,4] tensors",
    ],
    bounds=("merged dims [outer, inner0, inner1] from a concrete size family (each 1..3, one thorough case with 4; plus a "
            "zero-sized dim), total <= 18 elements; strides symbolic < 2^20 each; consumption histories: one symbolic "
            "front/back choice per step for the whole length; 3-4 nth() calls with fully symbolic arguments mixed with "
            "next_back(); split_at at a symbolic point after a symbolic number of front steps, both halves consumed "
            "from symbolic ends; fold over a symbolic remainder/truncation; lanes of 4 elements, stride <= 5; axis iterators: up to two symbolic "
            "front/back steps, then split_at at a symbolic point or nth with symbolic n <= 5 followed by len/size_hint/next"),
    outside=("more than one outer dim (step_outer_pos loop over >1 outer position), sizes > 4, OffsetsBase::new's use "
             "of merge_axes (C09 has the merge_axes harness), InnerIter/AxisIter/AxisChunks view construction, the rayon "
             "bridge itself (ParIter only calls split_at and sequential consumption: assumed)"),
    assumptions=[
        "strides < 2^20 so that reference offsets cannot overflow (offsets of real tensors are < isize::MAX)",
        "iterator state is constructed directly as OffsetsBase::new would build it for merged dims [o, i0, i1]",
        "IterMut's at-most-once clause = each linear index yielded once (decided here) + distinct indices have distinct "
        "offsets for accepted mutable layouts (decided under C08/C06)",
    ],
    explanation=("Bounded model checking of the offset iterator state machine against the row-major reference "
                 "offset function, for every stride vector and every consumption history within the bound."),
)

prop(
    "C38",
    memory_safety=True,
    title="The ONNX protobuf decoder terminates and never panics",
    unwinding_is_violation=True,
    groups=[dict(crate="rten-onnx", prefix="c38", jobs=8, timeout_quick=900, timeout_thorough=7200, replay_watchdog_s=20, mem_gb_thorough=36)],
    functions=[
        "protobuf::varint::read_varint (over Cursor<&[u8]> and over a one-byte-at-a-time BufRead)",
        "protobuf::value::ValueReader::{new, from_buf, skip, read_bytes, position}",
        "protobuf::value::ValueReader::{read_i32, read_i64, read_bytes(5)} over a BufRead that refills 3 bytes at a time (values straddling refills)",
        "protobuf::value::LimitReader::{new, sub_limit, check_has_bytes, read_bytes, read_string, skip, read_i64}",
        "protobuf::field::{Fields::new, Fields::next, Field::skip} (thorough tier, <= 6 bytes)",
    ],
    bounds=("read_varint: every buffer of 0..=11 symbolic bytes, unwind 13 (a varint is at most 10 bytes, so a terminating "
            "run needs at most 11 loop iterations: the unwinding assertion is the termination check); LimitReader: "
            "position, limits, field length and requested length all fully symbolic u64/usize; ValueReader skip/read_bytes: "
            "buffer of 0..=8 bytes, requested length fully symbolic usize; fixed-width reads: 0..=11 symbolic bytes, symbolic skip "
            "of 0..=3 bytes first, 3-byte refill windows; Fields::next+Field::skip: 0..=6 bytes"),
    outside=("ModelProto::decode_fields and the other ~20 ONNX message decoders (recursion over Vec/String fields; a "
             "whole-buffer walk did not finish in 10 min), recursion depth of nested messages, the real BufReader<File> "
             "(modelled by chunk-refilling BufRead stubs of 1, 3 and 4 bytes; ReadPos is arithmetic-only and shares ValueReader), "
             "allocation failure"),
    assumptions=[
        "LimitReader harness: the underlying reader is a stub whose position is an arbitrary u64 and whose reads succeed "
        "(environment model); the pair (position, top-level limit) is assumed not to exceed u64::MAX, as for any real stream",
        "whole-decode termination = per-step progress (decided) + induction on remaining length (argued, not solved)",
    ],
    explanation=("Bounded model checking of the protobuf primitive readers: termination of read_varint by unwinding "
                 "assertions, agreement with a reference varint decoder, and overflow-free, exact length validation "
                 "for every 64-bit position/length combination."),
)

prop(
    "C09",
    title="Layout transformations match a reference array model",
    groups=[dict(crate="rten-tensor", prefix="c09", jobs=12, timeout_quick=1200, timeout_thorough=7200)],
    functions=[
        "layout::slice_layout via NdLayout<1|2>::slice::<M> (index items, ranges with negative/open ends, positive steps)",
        "slice_range::SliceRange::{new, resolve, resolve_clamped, clamp, index_range, step}, IndexRange::{new, steps}",
        "NdLayout<3>::{permuted, transposed}, layout::is_valid_permutation",
        "NdLayout<2> -> NdLayout<3> BroadcastLayout::broadcast, layout::broadcast_strides, Layout::can_broadcast_to",
        "NdLayout<3>::{split, slice_axis, index_axis}, Layout::min_data_len",
        "NdLayout<2>::insert_dim, NdLayout<3>::remove_dim, Layout::reshaped_for_view / reshaped_for_copy",
        "layout::merge_axes (thorough, shape [1,3,2] only)", "NdLayout<3>::move_axis (via DynLayout::move_axis)",
    ],
    bounds=("parents of concrete shape (rank 1-3, sizes <= 5) with contiguous, transposed or stepped strides; slice items fully "
            "symbolic (index or range, start/end/step in (-2^40, 2^40); full isize range for the rank-1 thorough harness); "
            "symbolic permutation, broadcast target (dims <= 4), axis, split point, slice_axis bounds (full usize), index; "
            "strides symbolic < 2^20 for the axis operations and merge_axes; one transformation per harness; unwind 8"),
    outside=("element copying (copy_into_slice, to_contiguous, append, clip_dim): heap-buffer loops, not encoded; DynLayout "
             "variants (SmallVec; slice_layout, broadcast_strides and merge_axes are shared generic code); chains of more than "
             "one transformation beyond the non-contiguous parents; negative steps (rejected at layout level, handled by the "
             "Slice operator); slice::<M> with M smaller than the number of kept dims panics (loud, not silent)"),
    assumptions=[
        "start/end/step magnitudes < 2^40 in the quick tier: stride*step and -index-1 overflow only beyond that "
        "(dev-profile panics on absurd arguments, not silent loss)",
        "the reference model is NumPy-style index algebra written in the harness (model_item): reviewed by hand",
    ],
    explanation=("Bounded model checking of each layout transformation against the nested-array model reduced to index "
                 "algebra: acceptance/rejection, output shape, and the offset of a symbolic output element."),
)

prop(
    "C23",
    memory_safety=True,
    title="The buffer pool hands out each buffer once with adequate capacity",
    groups=[dict(crate="rten", prefix="c23", jobs=6, timeout_quick=1500, timeout_thorough=7200)],
    functions=[
        "buffer_pool::Buffer::{from_vec, can_fit, layout_match, into_vec, release, drop}",
        "buffer_pool::BufferPool::{new, with_min_size, add, alloc, len}",
    ],
    bounds=("pool pre-state: two pooled buffers (plus one instance with three buffers of mixed element sizes: u8x8, u8x16, f32x5) with concrete element types and capacities from a family (quick: u32x4, u32x6, "
            "u64x2, [u16;2]x4, u8x4, u8x16 with min_size 8 bytes; thorough adds u32x16/x24, f32x8, u64x4, u8x32, i16x32, u16x16 "
            "with min_size 16/32), in both pool orders; one alloc::<T>(req) step with symbolic req (<= 4..20 quick, <= 64 "
            "thorough) for T in {f32, i64, u32, [u16;2], i8, u8, i16}; Buffer round trips for 6 type pairs (same layout, "
            "different size, larger and smaller alignment); unwind 6"),
    outside=("symbolic capacities (ran out of memory at 33 GB), more than two pooled buffers, histories longer than one step, "
             "thread interleavings (all pool state is behind one Mutex, so each interleaving equals a sequential order of "
             "steps: argued, not solved), PoolRef/ExtractBuffer wrappers"),
    assumptions=[
        "lock atomicity: BufferPool state is a Mutex<Vec<Buffer>>, every access is a critical section",
        "Kani's allocator model: distinct live allocations have distinct addresses; deallocation checks size/alignment match",
    ],
    explanation=("Bounded model checking of one pool step from a family of concrete pool states: capacity, layout "
                 "compatibility, best fit, no double hand-out, and (through CBMC's allocation checks on drop) each buffer "
                 "freed exactly once with the layout it was allocated with."),
)

prop(
    "C26",
    title="Invalid run requests are reported as errors",
    groups=[dict(crate="rten", prefix="c26", jobs=8, timeout_quick=900, timeout_thorough=7200)],
    functions=[
        "graph::planner::CachedPlan::{new, matches}",
        "graph::planner::first_duplicate_by",
    ],
    bounds=("cached id lists of 1-3 inputs / 1-2 outputs (thorough: 3x3, 4x2), ids symbolic < 6, duplicate free (a plan is cached "
            "only after create_plan succeeded); request lists of the same lengths fully symbolic (duplicates allowed), plus a "
            "length-mismatch harness; first_duplicate_by on <= 4 symbolic ids; unwind 6-10"),
    outside=("Graph::validate_inputs (dtype/rank/dimension checks), Planner::create_plan's node-kind checks and Model::run "
             "argument handling: all walk Graph (hash maps, Arc<dyn Operator>), measured out of reach"),
    assumptions=[
        "a cache hit for a request that is not a permutation of the cached ids is the violation: such a request skips "
        "create_plan's duplicate/kind checks and run_plan panics (confirmed natively through Graph::run)",
    ],
    explanation=("Bounded model checking of the plan-cache gate that stands between Graph::run and the planner's request "
                 "validation: a request hits the cache iff it is a permutation of the cached duplicate-free id lists."),
)

prop(
    "C18",
    memory_safety=True,
    title="SIMD instruction sets agree and stay within slice bounds",
    groups=[dict(crate="rten-simd", prefix="c18", jobs=6, timeout_quick=1200, timeout_thorough=7200)],
    functions=[
        "functional::simd_map (in place and src->uninit dest), functional::simd_apply::<_, _, _, 2>",
        "arch::generic GenericIsa i32/u8: load_ptr, store_ptr, first_n_mask, load_ptr_mask, store_ptr_mask, splat, "
        "and/or/xor/not, min/max, eq/ge/gt, select, shift_left/right, add (non-overflowing)",
    ],
    bounds=("slice lengths 0..=9 (simd_map, i32 x4), 0..=14 (simd_apply unroll 2, i32), 0..=18 (u8 x16, thorough); element "
            "values fully symbolic; guard elements on both sides of the slice; unwind 6-20"),
    outside=("AVX2 / AVX-512 / NEON / WASM instruction sets (intrinsics and inline asm: not executable by CBMC), so the "
             "cross-ISA clause is only decided as 'generic = scalar definition'; float operations and NaN payload rules; "
             "rten-vecmath kernels; integer add/sub/mul on overflowing inputs (generic uses +,-,* which panic in the dev "
             "profile and wrap in release like the x86 kernels)"),
    assumptions=["cfg(kani) makes rten_simd::dispatch return the generic ISA (hook)"],
    explanation=("Bounded model checking of the shared vector-body/masked-tail logic and of the portable ISA's integer "
                 "primitives against their scalar definitions, with CBMC's pointer checks deciding that nothing outside "
                 "the slice is read or written."),
)

prop(
    "C27",
    title="Byte-level BPE tokenization round-trips and reports consistent offsets",
    groups=[dict(crate="rten-text", prefix="c27", jobs=4, timeout_quick=900)],
    functions=["models::bpe::byte_to_char", "models::bpe::is_printable"],
    bounds="complete for the 256-entry table (two symbolic bytes); unwind 258",
    outside=("everything else in the statement: char_to_byte is a HashMap, encode/decode go through fancy-regex and "
             "FxHashMap vocabularies, offsets through the tokenizer pipeline"),
    assumptions=["decode inverts byte_to_char through a HashMap built from the same table (not encoded)"],
    explanation=("Bounded model checking of the byte<->char table that the round-trip rests on: injective, printable, "
                 "identity on printable bytes."),
)

prop(
    "C29",
    title="Chunked encoding respects limits and partitions the token stream",
    groups=[dict(crate="rten-text", prefix="c29", jobs=4, timeout_quick=900, timeout_thorough=3600)],
    functions=["split::SliceExt::chunks_with_overlap", "split::OverlappingChunks::next", "split::SliceExt::subslice_offsets"],
    bounds=("slice length 0..=6 (8 thorough), chunk size 1..=len+1 and overlap < chunk size, all symbolic; unwind 9-11"),
    outside=("Tokenizer::encode_chunks (tokenizer: regex + hash maps) including its special-token accounting and final-offset "
             "computation; overlap >= chunk size (documented assert/panic)"),
    assumptions=["overlap < chunk_size (the function asserts it)"],
    explanation=("Bounded model checking of the chunking kernel: contiguous windows of bounded length, stride "
                 "chunk_size-overlap, complete in-order coverage, no empty or superfluous chunk."),
)

prop(
    "C31",
    title="Logit filters implement their contracts for all inputs",
    groups=[dict(crate="rten-generate", prefix="c31", jobs=8, timeout_quick=1200, timeout_thorough=7200)],
    functions=[
        "filter::TopK::filter, filter::SimdTopK::eval::<GenericIsa> (scalar set-up, vector body for n > k+4, tail)",
        "filter::TopP::filter (normalize(false)), Logits::{dense, sparse, into_logits_indices}",
    ],
    bounds=("(n, k) concrete per harness: n in 0..=4 and k in 0..=4 incl. k<n, k=n, k>n (thorough: n=6,7 reach the vector "
            "body); logits symbolic f32 bit patterns (ordinary = no NaN, no -0.0; all-bits variants include them); TopP: "
            "n in 0..=3 (4 thorough), probabilities and p symbolic in [0,1]; sparse token ids (symbolic, distinct) for n=3,4; unwind 4-10"),
    outside=("softmax normalisation inside TopP (exp), AVX paths, Temperature/token-id filters, n > 7; Chain::filter itself "
             "(a three-line fold: composition argued; a chained harness with a symbolic-length intermediate did not finish in 30 min)"),
    assumptions=["cfg(kani) dispatches to the generic ISA", "TopP inputs are probabilities in [0,1] without NaN"],
    explanation=("Bounded model checking of the filters against their contracts stated as predicates over the output: "
                 "count, sub-multiset of the input pairs, descending order, nothing dropped exceeds anything kept "
                 "(IEEE total order), shortest prefix reaching the threshold, non-empty."),
)

prop(
    "C33",
    title="Samplers choose only valid candidates",
    groups=[dict(crate="rten-generate", prefix="c33", jobs=6, timeout_quick=2400, timeout_thorough=10800)],
    functions=["sampler::ArgMax::sample", "sampler::multinomial", "fastrand::Rng::{with_seed, f32} (real generator, symbolic seed)"],
    bounds=("ArgMax: n in {1,3} (5 thorough) symbolic non-NaN scores and symbolic sparse ids; multinomial: n = 2 (4 "
            "thorough) probabilities symbolic in [0,1], the 64-bit seed fully symbolic (so every draw the real generator "
            "can produce first is covered); unwind 4-8"),
    outside=("the softmax in Multinomial::sample and its unwrap_or(0) fallback when the probability mass rounds below the "
             "draw; draws after the first of a seed"),
    assumptions=["no NaN scores for ArgMax"],
    explanation=("Bounded model checking of the samplers: arg-max returns the id of a maximal score; multinomial, with the "
                 "real random generator seeded symbolically, never returns an index of zero probability and is a function of the seed."),
)

prop(
    "C36",
    memory_safety=True,
    title="Contour tracing and drawing stay on the image",
    groups=[dict(crate="rten-imageproc", prefix="c36", jobs=6, timeout_quick=1200, timeout_thorough=7200)],
    functions=["drawing::clamp_to_bounds", "drawing::BreshamPoints::{new, next}", "drawing::draw_line (width 1)",
               "drawing::fill_rect", "drawing::stroke_rect (thorough)"],
    bounds=("images 1x1, 2x3, 4x4 (0x0, 5x3 thorough) zero-filled u8; line endpoints symbolic over all of i32 x i32; "
            "Bresenham lines with coordinates in [-3,3]; fill_rect rectangles symbolic inside a 3x3 (4x4 thorough) image; "
            "stroke_rect: 3x4 image with a symbolic top-left corner (quick), every in-image rectangle of a 3x3 image with "
            "width 1 (thorough; the 4x4 family exceeded the memory limit); unwind 4-18"),
    outside=("find_contours, wide lines and polygon filling (float geometry), rectangles partly outside the image "
             "(fill_rect does no clipping: bounds-checked indexing panics, nothing outside is modified)"),
    assumptions=["stroke_rect border width <= half the rectangle (its documented bounding-box behaviour needs it)"],
    explanation=("Bounded model checking of the drawing primitives: every index is inside the image (a bounds-check "
                 "panic would be reported) and exactly/only the pixels of the shape are modified."),
)

prop(
    "C21",
    title="External tensor data cannot escape the model directory or its file bounds",
    groups=[dict(crate="rten", prefix="c21", jobs=6, timeout_quick=2400, timeout_thorough=14400)],
    functions=["model::external_data::is_allowed_external_data_path", "std::path::Path::{components, extension} (as compiled)"],
    bounds=("every location string of 0..=6 symbolic bytes (7 thorough; 8 exceeded the memory limit) plus 15 fixed longer locations, one per harness (5 quick, the rest thorough) "
            "(traversal, nesting, absolute, ./, Windows-style, split-file names, second extension, empty stem, case); unwind 10-24"),
    outside=("the offset/length checks of MemLoader/MmapLoader/FileLoader: they sit behind a HashMap<String,_> lookup or real "
             "files (hash maps measured out of reach; I/O); locations longer than 8 bytes other than the fixed ones"),
    assumptions=["Unix path semantics (the build target)"],
    explanation=("Bounded model checking of the path predicate that gates every external-data loader, against a byte-level "
                 "model of 'a single plain data filename directly in the model directory'."),
)

