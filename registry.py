"""Per-property metadata for ./check: which crates hold the harnesses of a
property, and what the claim covers (functions encoded, bounds, what lies
outside them, assumptions). The harness lists themselves are not written here:
they are discovered from /verif/kani/<crate>/*.rs by name (`<id>_q_*` quick,
`<id>_t_*` thorough only)."""

TRUSTED_BASE = [
    "Kani 0.68.0 MIR->goto translation and its models of alloc/Vec/slices/Cursor",
    "CBMC 6.11.0 symbolic execution + CaDiCaL SAT back end",
    "rustc nightly-2026-08-21 front end (Kani's pinned toolchain)",
    "Kani forces overflow-checks=on: a verified harness has no reachable arithmetic overflow, "
    "so dev-profile and release-profile semantics coincide on the encoded paths (debug_assert! excepted)",
    "harness oracles in /verif/kani (reviewed by hand; each has kani::cover! reachability witnesses)",
]

PROPS = {}


def prop(pid, **kw):
    PROPS[pid] = kw


prop(
    "C08",
    title="The overlap check never admits aliasing layouts",
    groups=[dict(crate="rten-tensor", prefix="c08", jobs=8, timeout_quick=600, timeout_thorough=3600)],
    functions=[
        "rten_tensor::overlap::may_have_internal_overlap",
        "rten_tensor::overlap::is_contiguous",
        "rten_tensor::layout::NdLayout::<N>::from_shape_and_strides (DisallowOverlap), N=1..4",
        "rten_tensor::layout::is_valid_permutation",
    ],
    bounds=("soundness: concrete shape family (ranks 1-3 quick, +rank 4 thorough; sizes 1..4), strides fully "
            "symbolic 64-bit, both indices symbolic; emptiness: shapes with a 0 dim, strides symbolic; "
            "completeness: contiguous parent of concrete shape, child sizes concrete, per-axis step symbolic 1..7 "
            "(window inside parent), every axis permutation; unwind 10"),
    outside=("ranks > 4, sizes > 4 (rank<=3) / > 3 (rank 4), DynLayout's SmallVec path (same generic function, "
             "instantiated for [usize;N] here), reshape-derived layouts (reshape of a contiguous layout is "
             "contiguous, covered by the step=1 case), TensorBase::expanded_layout (calls the same function)"),
    assumptions=[
        "shape family is a case split chosen by the harness macros, not the deciding step; the solver "
        "quantifies over all strides and index pairs for each shape",
        "exact offsets are computed by the oracle in u128 with multiplication by a small index expressed as a case split",
    ],
    explanation=("Bounded model checking of the real overlap check: for each concrete shape CBMC proves that "
                 "no 64-bit stride vector accepted by the check lets two distinct valid indices share an offset "
                 "or lets the largest offset exceed usize::MAX, and that sliced+permuted contiguous layouts are accepted."),
)

prop(
    "C05",
    title="Loading untrusted model bytes is safe, bounded and well-formed",
    groups=[
        dict(crate="rten-model-file", prefix="c05", jobs=4),
    ],
    functions=["rten_model_file::header::Header::from_buf", "rten_model_file::header::Header::to_buf"],
    bounds="files of 0..48 symbolic bytes (from_buf reads only the first 32); unwind 6/34",
    outside="FlatBuffers verifier, ONNX graph construction, mmap",
    assumptions=[],
    explanation="Bounded model checking of the .rten header parser over every byte string up to 48 bytes.",
)

prop(
    "C06",
    title="Safe tensor APIs never access memory out of bounds or alias mutably",
    groups=[dict(crate="rten-tensor", prefix="c06", jobs=12, timeout_quick=600, timeout_thorough=3600)],
    functions=[
        "TensorBase::try_from_data (NdLayout<1..3>, DynLayout rank 2)",
        "TensorBase::from_slice_with_strides / from_data_with_strides / from_storage_and_layout",
        "Layout::min_data_len, NdLayout::from_shape / contiguous_strides, DynLayout::from_shape, NdLayout::offset, DynLayout::offset",
        "Index / IndexMut / get / get_mut (bounds check + Storage::get_unchecked*)",
        "TensorBase::try_slice / try_slice_dyn / transposed / split_at_mut / index_axis / try_broadcast",
        "overlap::may_have_internal_overlap (through the DisallowOverlap constructors)",
    ],
    bounds=("try_from_data: shape fully symbolic 64-bit for ranks 1-2 (rank 3 with one concrete dim, thorough), storage of "
            "0..=8 symbolic bytes; strided constructors: concrete shape family (ranks 1-3, sizes <= 4), strides symbolic "
            "full 64-bit, storage 0..=16 bytes, index/indices symbolic; derived views: parent [3,4]/[2,3] u8, slice "
            "items symbolic in [-6,6] incl. negative and stepped ranges, split axis/mid symbolic; unwind 6-10"),
    outside=("element types other than u8 (layout code is element-type independent: assumed), ranks > 3, SmallVec spill "
             "(> 8 dims), chains of more than two view operations, iterators (C07), copying operations (C09)"),
    assumptions=[
        "out-of-range index components passed to DynLayout get() are < 2^16 (a larger one overflows idx*stride: "
        "dev-profile panic, None in release; not a memory-safety matter)",
        "from_storage_and_layout: documented precondition min_data_len <= storage length is assumed (it asserts it)",
        "split_at_mut/index_axis harnesses bound strides to <= 16 (larger strides are rejected by the 16-byte storage anyway)",
    ],
    explanation=("Bounded model checking of the safe constructors and view operations: CBMC pointer checks plus the "
                 "live debug_assert in Storage::get_unchecked* decide every dereference, and explicit address assertions "
                 "decide in-bounds and non-aliasing for all strides/indices in the bound."),
)

prop(
    "C07",
    title="Tensor iterators yield exactly the logical elements in order",
    groups=[dict(crate="rten-tensor", prefix="c07", jobs=14, timeout_quick=900, timeout_thorough=7200)],
    functions=[
        "iterators::IterPos::{from_size_stride, step, index, set_index, size}",
        "iterators::OffsetsBase::{next, next_back, step_by, fold, split_at, truncate, offset_from_linear_index, step_outer_pos}",
        "iterators::Offsets::{new (Range fast path), next, nth, next_back, split_at}",
        "iterators::{Lane, LaneMut}::{next, next_back, nth, len}",
    ],
    bounds=("merged dims [outer, inner0, inner1] from a concrete size family (each 1..3, one thorough case with 4; plus a "
            "zero-sized dim), total <= 18 elements; strides symbolic < 2^20 each; consumption histories: one symbolic "
            "front/back choice per step for the whole length; 3-4 nth() calls with fully symbolic arguments mixed with "
            "next_back(); split_at at a symbolic point after a symbolic number of front steps, both halves consumed "
            "from symbolic ends; fold over a symbolic remainder/truncation; lanes of 4 elements, stride <= 5"),
    outside=("more than one outer dim (step_outer_pos loop over >1 outer position), sizes > 4, OffsetsBase::new's use "
             "of merge_axes (C09 has the merge_axes harness), InnerIter/AxisIter/AxisChunks view construction, the rayon "
             "bridge itself (ParIter only calls split_at and sequential consumption: assumed)"),
    assumptions=[
        "strides < 2^20 so that reference offsets cannot overflow (offsets of real tensors are < isize::MAX)",
        "iterator state is constructed directly as OffsetsBase::new would build it for merged dims [o, i0, i1]",
        "IterMut's at-most-once clause = each linear index yielded once (decided here) + distinct indices have distinct "
        "offsets for accepted mutable layouts (decided under C08/C06)",
    ],
    explanation=("Bounded model checking of the offset iterator state machine against the row-major reference "
                 "offset function, for every stride vector and every consumption history within the bound."),
)

prop(
    "C38",
    title="The ONNX protobuf decoder terminates and never panics",
    unwinding_is_violation=True,
    groups=[dict(crate="rten-onnx", prefix="c38", jobs=8, timeout_quick=900, timeout_thorough=7200, replay_watchdog_s=20)],
    functions=[
        "protobuf::varint::read_varint (over Cursor<&[u8]> and over a one-byte-at-a-time BufRead)",
        "protobuf::value::ValueReader::{new, from_buf, skip, read_bytes, position}",
        "protobuf::value::LimitReader::{new, sub_limit, check_has_bytes, read_bytes, read_string, skip, read_i64}",
        "protobuf::field::{Fields::new, Fields::next, Field::skip} (thorough tier, <= 6 bytes)",
    ],
    bounds=("read_varint: every buffer of 0..=11 symbolic bytes, unwind 13 (a varint is at most 10 bytes, so a terminating "
            "run needs at most 11 loop iterations: the unwinding assertion is the termination check); LimitReader: "
            "position, limits, field length and requested length all fully symbolic u64/usize; ValueReader skip/read_bytes: "
            "buffer of 0..=8 bytes, requested length fully symbolic usize; Fields::next+Field::skip: 0..=6 bytes"),
    outside=("ModelProto::decode_fields and the other ~20 ONNX message decoders (recursion over Vec/String fields; a "
             "whole-buffer walk did not finish in 10 min), recursion depth of nested messages, the BufReader<File> path "
             "(ReadPos is arithmetic-only and shares ValueReader), allocation failure"),
    assumptions=[
        "LimitReader harness: the underlying reader is a stub whose position is an arbitrary u64 and whose reads succeed "
        "(environment model); the pair (position, top-level limit) is assumed not to exceed u64::MAX, as for any real stream",
        "whole-decode termination = per-step progress (decided) + induction on remaining length (argued, not solved)",
    ],
    explanation=("Bounded model checking of the protobuf primitive readers: termination of read_varint by unwinding "
                 "assertions, agreement with a reference varint decoder, and overflow-free, exact length validation "
                 "for every 64-bit position/length combination."),
)
