#!/bin/sh
# usage: [LANE=<suffix>] tools/try_seed_one.sh <patch.diff> <PID> <harness-name>
# Like try_seed.sh, but runs the real driver with only ONE quick harness of the
# property visible (all other `<pid>_q_` harnesses of the private harness copy
# are renamed out of the driver's sight). For re-trials of a single added harness.
patch="$1"; pid="$2"; keep="$3"
low=$(echo "$pid" | tr 'A-Z' 'a-z')
wt=/tmp/wt-seed$LANE
kani_copy=/tmp/kani-seed$LANE
head=$(git -C /repo rev-parse HEAD)
if [ ! -d $wt ]; then git -C /repo worktree add -q --detach $wt "$head" || exit 2; fi
git -C $wt checkout -q -- . && git -C $wt checkout -q --detach "$head" || exit 2
rm -rf $kani_copy && cp -r /verif/kani $kani_copy
grep -rl "${low}_q_" $kani_copy | xargs sed -i "s/${low}_q_/${low}_x_/g; s/${low}_x_${keep#${low}_q_}/${keep}/g"
grep -rl '"/verif/kani/' $wt --include=*.rs | xargs sed -i 's#"/verif/kani/#"'$kani_copy'/#'
( cd $wt && git apply "$patch" ) || { echo "patch does not apply"; exit 2; }
cd /verif
VERIF_REPO=$wt VERIF_KANI_SRC=$kani_copy VERIF_CACHE=/verif/.cache/seed$LANE \
VERIF_EVIDENCE_DIR=/verif/.cache/seed$LANE/evidence VERIF_REPLAY_DIR=/verif/.cache/seed$LANE/replay \
  ./check "$pid" > /verif/.cache/seedlogs/one-$keep.out 2>&1
rc=$?
echo "== $patch $pid ($keep only) exit=$rc"
grep -E "^\[check\] C|^VIOLATION|^INCONCLUSIVE|^KNOWN|failed check in" /verif/.cache/seedlogs/one-$keep.out | cut -c1-260 | head -10
git -C $wt checkout -q -- .
