#!/bin/sh
# usage: tools/run_seeds.sh "<patch> <PID> [<PID>..]" ...   (one quoted group per seed)
out=/verif/.cache/seed_results.txt
for group in "$@"; do
  set -- $group
  patch="$1"; shift
  echo "#### $patch -> $*" >> $out
  /verif/tools/try_seed.sh "$patch" "$@" >> $out 2>&1
done
echo "#### done" >> $out
