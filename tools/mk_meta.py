#!/usr/bin/env python3
"""usage: tools/mk_meta.py <seed-id> <property> <needs> <detection> [confirm-line]
Writes /verif/seeded/<seed-id>/meta.json in the format of the earlier seeds."""
import json, sys, os
sid, prop, needs, detection = sys.argv[1:5]
confirm = sys.argv[5] if len(sys.argv) > 5 else ""
d = {
 "id": sid, "property": prop, "needs_to_manifest": needs,
 "origin": "written by an independent sub-agent that saw only the property text and a scratch worktree of /repo",
 "confirmed": {
  "how": "tools/confirm_seed.sh in a scratch worktree of /repo's HEAD",
  "demo_without_change": "passes", "demo_with_change": "fails",
  "existing_workspace_suite_with_change": "passes (cargo test --workspace --no-fail-fast --offline, exit 0)",
  "log_line": confirm,
 },
 "detection": detection,
}
json.dump(d, open(os.path.join("/verif/seeded", sid, "meta.json"), "w"), indent=1)
