#!/usr/bin/env python3
"""Regenerates DESIGN.md section 11 (per-property summary as built) from
registry.py and not_applicable.json. Everything from the '## 11.' heading to the
end of the file is replaced."""
import json, sys, os
sys.path.insert(0, "/verif")
import registry
p = "/verif/DESIGN.md"
s = open(p).read()
head = "## 11. Per-property summary as built (generated from registry.py)\n"
i = s.index("## 11. Per-property summary")
out = [head]
for pid in sorted(registry.PROPS):
    m = registry.PROPS[pid]
    out.append("\n### %s %s\n" % (pid, m["title"]))
    out.append("* **Functions encoded:** %s\n" % "; ".join(m["functions"]))
    out.append("* **Bounds:** %s\n" % m["bounds"])
    out.append("* **Outside the claim:** %s\n" % m["outside"])
    out.append("* **Assumptions / stubs:** %s\n" % "; ".join(m.get("assumptions", [])))
out.append("\n### Not applicable\n\n")
for e in json.load(open("/verif/not_applicable.json")):
    out.append("* **%s** — %s\n" % (e["property_id"], e["reason"]))
new = s[:i] + "".join(out)
open(p, "w").write(new)
