#!/bin/sh
# usage: tools/confirm_seed.sh <seed_dir>     (seed_dir holds patch.diff + demo.rs)
# Confirms, in a scratch worktree of /repo's HEAD, that the seeded change
#  (1) compiles and passes the existing workspace test suite,
#  (2) makes its demonstration fail, and that
#  (3) the demonstration passes without the change.
# Prints CONFIRMED or NOT-CONFIRMED with the three outcomes.
seed="$1"
wt=${WT:-/tmp/wt-confirm}
head=$(git -C /repo rev-parse HEAD)
[ -d $wt ] || git -C /repo worktree add -q --detach $wt "$head" || exit 2
git -C $wt checkout -q -- . && git -C $wt clean -fdq -e target && git -C $wt checkout -q --detach "$head" || exit 2
path=$(grep -oE 'rten[-a-z]*/tests/[A-Za-z0-9_]+\.rs|tests/[A-Za-z0-9_]+\.rs' "$seed/demo.rs" | head -1)
[ -n "$path" ] || { echo "NOT-CONFIRMED $seed: cannot find demo location"; exit 1; }
case "$path" in rten*) crate=${path%%/*};; *) crate=rten;; esac
name=$(basename "$path" .rs)
mkdir -p "$wt/$(dirname $path)"; cp "$seed/demo.rs" "$wt/$path"
cd $wt
cargo test -p $crate --offline --test $name > $seed/confirm_without.log 2>&1; without=$?
git apply "$seed/patch.diff" || { echo "NOT-CONFIRMED $seed: patch does not apply to HEAD"; exit 1; }
cargo test -p $crate --offline --test $name > $seed/confirm_with.log 2>&1; with=$?
rm -f "$wt/$path"
cargo test --workspace --no-fail-fast --offline > $seed/confirm_suite.log 2>&1; suite=$?
git checkout -q -- . ; git clean -fdq -e target
if [ $without -eq 0 ] && [ $with -ne 0 ] && [ $suite -eq 0 ]; then
  echo "CONFIRMED $seed (demo without=$without with=$with, existing suite with change=$suite)"
else
  echo "NOT-CONFIRMED $seed (demo without=$without with=$with, existing suite with change=$suite)"
fi
