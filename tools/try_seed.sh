#!/bin/sh
# usage: [LANE=<suffix>] tools/try_seed.sh <patch.diff> <PID> [<PID>...]   (LANE: separate scratch worktree/cache, for parallel trials)
# Runs the given checks (quick tier) against a scratch worktree of /repo's HEAD
# with the seeded change applied, fully isolated from /repo and from the live
# harness sources: the worktree's hooks are pointed at a private copy of
# /verif/kani, and a private cache / evidence / replay directory is used.
# (Confirmation against /repo itself: git -C /repo apply <patch>; ./check <PID>;
#  git -C /repo checkout -- . )
patch="$1"; shift
tag=$(echo "$patch" | sed 's#/tmp/seeded/##; s#/patch.diff##; s#/#_#g')
wt=/tmp/wt-seed$LANE
kani_copy=/tmp/kani-seed$LANE
head=$(git -C /repo rev-parse HEAD)
if [ ! -d $wt ]; then git -C /repo worktree add -q --detach $wt "$head" || exit 2; fi
git -C $wt checkout -q -- . && git -C $wt checkout -q --detach "$head" || exit 2
rm -rf $kani_copy && cp -r /verif/kani $kani_copy
grep -rl '"/verif/kani/' $wt --include=*.rs | xargs sed -i 's#"/verif/kani/#"'$kani_copy'/#'
( cd $wt && git apply "$patch" ) || { echo "patch does not apply"; exit 2; }
cd /verif
for pid in "$@"; do
  out=/verif/.cache/seedlogs/$tag-$pid.out
  mkdir -p /verif/.cache/seedlogs
  VERIF_REPO=$wt VERIF_KANI_SRC=$kani_copy VERIF_CACHE=/verif/.cache/seed$LANE \
  VERIF_EVIDENCE_DIR=/verif/.cache/seed$LANE/evidence VERIF_REPLAY_DIR=/verif/.cache/seed$LANE/replay \
    ./check "$pid" > $out 2>&1
  rc=$?
  echo "== $tag $pid exit=$rc"
  grep -E "^\[check\] C|^VIOLATION|^INCONCLUSIVE|^KNOWN|failed check in" $out | cut -c1-260 | head -10
done
git -C $wt checkout -q -- .
